//! cairo-facts: a generic `rustc_private` driver that dumps the type-resolved MIR of every
//! body of the crate being compiled as JSON lines. It knows nothing about the properties;
//! the rule sets under /verif/rules decide them from these facts.
//!
//! Injected with RUSTC_WORKSPACE_WRAPPER under `cargo +nightly check`; writes one file per
//! rustc process into $VERIF_FACTS_DIR (single write, so parallel crates never interleave).
#![feature(rustc_private)]
#![allow(clippy::all)]

extern crate rustc_abi;
extern crate rustc_data_structures;
extern crate rustc_driver;
extern crate rustc_hir;
extern crate rustc_interface;
extern crate rustc_middle;
extern crate rustc_session;
extern crate rustc_span;

mod json;

use json::J;
use rustc_driver::Compilation;
use rustc_hir::def::DefKind;
use rustc_hir::def_id::{DefId, LocalDefId};
use rustc_middle::mir::{
    AggregateKind, AssertKind, BasicBlock, Body, Const as MirConst, Operand, Place, PlaceElem,
    Rvalue, StatementKind, TerminatorKind,
};
use rustc_middle::ty::print::{with_no_trimmed_paths, with_no_visible_paths, with_resolve_crate_name};
use rustc_middle::ty::{self, GenericArgsRef, Instance, Ty, TyCtxt, TypingEnv};
use rustc_span::Span;
use std::io::Write;

struct Cb;

impl rustc_driver::Callbacks for Cb {
    fn after_analysis<'tcx>(
        &mut self,
        _compiler: &rustc_interface::interface::Compiler,
        tcx: TyCtxt<'tcx>,
    ) -> Compilation {
        if let Ok(dir) = std::env::var("VERIF_FACTS_DIR") {
            let krate = tcx.crate_name(rustc_hir::def_id::LOCAL_CRATE).to_string();
            if krate != "build_script_build" {
                dump_crate(tcx, &dir, &krate);
            }
        }
        Compilation::Continue
    }
}

fn main() {
    let mut args: Vec<String> = std::env::args().collect();
    // RUSTC_WORKSPACE_WRAPPER: argv = [wrapper, rustc, args...]; run_compiler drops its argv[0].
    if args.len() > 1 && (args[1].ends_with("rustc") || args[1].contains("rustc")) {
        args.remove(0);
    }
    rustc_driver::install_ice_hook("https://invalid/", |_| ());
    let mut cb = Cb;
    rustc_driver::run_compiler(&args, &mut cb);
}

// ------------------------------------------------------------------------------------------

struct Cx<'tcx> {
    tcx: TyCtxt<'tcx>,
}

fn s(x: impl Into<String>) -> J {
    J::S(x.into())
}
fn n(x: impl TryInto<i128>) -> J {
    J::N(x.try_into().ok().unwrap_or(i128::MAX))
}

fn dump_crate<'tcx>(tcx: TyCtxt<'tcx>, dir: &str, krate: &str) {
    let cx = Cx { tcx };
    let mut out = String::with_capacity(1 << 24);
    let only_meta = std::env::var("VERIF_FACTS_NO_BODIES").is_ok();
    with_no_trimmed_paths!(with_no_visible_paths!(with_resolve_crate_name!({
        // Bodies.
        let mut nfn = 0usize;
        for def in tcx.hir_body_owners() {
            let kind = tcx.def_kind(def);
            let body: Option<&Body<'tcx>> = match kind {
                DefKind::Fn | DefKind::AssocFn | DefKind::Closure | DefKind::SyntheticCoroutineBody => {
                    Some(tcx.optimized_mir(def))
                }
                DefKind::Const { .. }
                | DefKind::AssocConst { .. }
                | DefKind::Static { .. }
                | DefKind::InlineConst => Some(tcx.mir_for_ctfe(def)),
                _ => None,
            };
            let Some(body) = body else { continue };
            let j = cx.dump_fn(def, kind, body, only_meta);
            j.write(&mut out);
            out.push('\n');
            nfn += 1;
        }
        // ADTs, impls.
        let items = tcx.hir_crate_items(());
        let mut nadt = 0usize;
        let mut nimpl = 0usize;
        for def in items.definitions() {
            match tcx.def_kind(def) {
                DefKind::Struct | DefKind::Enum | DefKind::Union => {
                    cx.dump_adt(def).write(&mut out);
                    out.push('\n');
                    nadt += 1;
                }
                DefKind::Impl { .. } => {
                    cx.dump_impl(def).write(&mut out);
                    out.push('\n');
                    nimpl += 1;
                }
                _ => {}
            }
        }
        J::O(vec![
            ("k", s("crate")),
            ("name", s(krate)),
            ("fns", n(nfn)),
            ("adts", n(nadt)),
            ("impls", n(nimpl)),
        ])
        .write(&mut out);
        out.push('\n');
    })));
    let id = format!("{:x}", tcx.stable_crate_id(rustc_hir::def_id::LOCAL_CRATE).as_u64());
    let tmp = format!("{dir}/.{krate}-{id}.tmp");
    let fin = format!("{dir}/{krate}-{id}.jsonl");
    let mut f = std::fs::File::create(&tmp).expect("facts: create");
    f.write_all(out.as_bytes()).expect("facts: write");
    drop(f);
    std::fs::rename(&tmp, &fin).expect("facts: rename");
}

impl<'tcx> Cx<'tcx> {
    fn loc(&self, span: Span) -> (String, usize) {
        let sp = if span.from_expansion() { span.source_callsite() } else { span };
        let sm = self.tcx.sess.source_map();
        let lo = sm.lookup_char_pos(sp.lo());
        let name = match &lo.file.name {
            rustc_span::FileName::Real(r) => match r.local_path() {
                Some(p) => p.to_string_lossy().into_owned(),
                None => format!("{:?}", lo.file.name),
            },
            other => format!("{:?}", other),
        };
        (name, lo.line)
    }

    fn line(&self, span: Span) -> J {
        n(self.loc(span).1)
    }

    fn macros(&self, span: Span) -> J {
        if !span.from_expansion() {
            return J::Null;
        }
        let mut v = vec![];
        for e in span.macro_backtrace().take(6) {
            match e.kind {
                rustc_span::ExpnKind::Macro(_, name) => v.push(s(name.to_string())),
                rustc_span::ExpnKind::Desugaring(d) => v.push(s(format!("desugar:{:?}", d))),
                _ => {}
            }
        }
        J::A(v)
    }

    fn path(&self, def: DefId) -> String {
        self.tcx.def_path_str(def)
    }

    fn args_j(&self, args: GenericArgsRef<'tcx>) -> J {
        J::A(
            args.iter()
                .filter(|a| a.as_region().is_none())
                .map(|a| s(format!("{}", a)))
                .collect(),
        )
    }

    fn dump_fn(&self, def: LocalDefId, kind: DefKind, body: &Body<'tcx>, only_meta: bool) -> J {
        let tcx = self.tcx;
        let did = def.to_def_id();
        let span = tcx.def_span(did);
        let (file, line) = self.loc(span);
        let mut o: Vec<(&'static str, J)> = vec![
            ("k", s("fn")),
            ("path", s(self.path(did))),
            ("kind", s(format!("{:?}", kind).split([' ', '{', '(']).next().unwrap_or("").to_string())),
            ("file", s(file)),
            ("line", n(line)),
            ("expn", J::B(span.from_expansion())),
        ];
        if matches!(kind, DefKind::Fn | DefKind::AssocFn) {
            o.push(("vis", s(if tcx.visibility(did).is_public() { "pub" } else { "" })));
        }
        // Parent (for closures / inline consts) and impl info.
        if matches!(kind, DefKind::Closure | DefKind::InlineConst | DefKind::SyntheticCoroutineBody) {
            let p = tcx.typeck_root_def_id(did);
            o.push(("root", s(self.path(p))));
        }
        if matches!(kind, DefKind::AssocFn | DefKind::AssocConst { .. }) {
            let parent = tcx.parent(did);
            match tcx.def_kind(parent) {
                DefKind::Impl { of_trait } => {
                    o.push(("derived", J::B(tcx.is_automatically_derived(parent))));
                    let self_ty = tcx.type_of(parent).instantiate_identity().skip_norm_wip();
                    o.push(("self_ty", s(format!("{}", self_ty))));
                    if of_trait {
                        let tr = tcx.impl_trait_ref(parent).instantiate_identity().skip_norm_wip();
                        o.push(("trait", s(self.path(tr.def_id))));
                        o.push(("trait_ref", s(format!("{}", tr))));
                    }
                    if let Some(adt) = self_ty.ty_adt_def() {
                        o.push(("self_adt", s(self.path(adt.did()))));
                    }
                }
                DefKind::Trait => {
                    o.push(("in_trait", s(self.path(parent))));
                }
                _ => {}
            }
            o.push(("name", s(tcx.item_name(did).to_string())));
        }
        if matches!(kind, DefKind::Fn | DefKind::AssocFn) {
            // names of the type/const generic parameters, parent (impl) parameters first: the same
            // order as the generic arguments recorded at call sites
            let generics = tcx.generics_of(did);
            let mut names: Vec<J> = vec![];
            let mut stack = vec![generics];
            let mut cur = generics;
            while let Some(parent) = cur.parent {
                cur = tcx.generics_of(parent);
                stack.push(cur);
            }
            for g in stack.iter().rev() {
                for prm in &g.own_params {
                    if !matches!(prm.kind, ty::GenericParamDefKind::Lifetime) {
                        names.push(s(prm.name.to_string()));
                    }
                }
            }
            o.push(("generics", J::A(names)));
        }
        o.push(("argc", n(body.arg_count)));
        if only_meta {
            return J::O(o);
        }
        let typing_env = TypingEnv::post_analysis(tcx, did);
        o.push(("body", self.dump_body(body, typing_env)));
        // Promoted constants.
        if matches!(
            kind,
            DefKind::Fn
                | DefKind::AssocFn
                | DefKind::Closure
                | DefKind::Const { .. }
                | DefKind::AssocConst { .. }
                | DefKind::Static { .. }
                | DefKind::InlineConst
        ) {
            let proms = tcx.promoted_mir(did);
            if !proms.is_empty() {
                o.push(("promoted", J::A(proms.iter().map(|b| self.dump_body(b, typing_env)).collect())));
            }
        }
        J::O(o)
    }

    fn dump_body(&self, body: &Body<'tcx>, env: TypingEnv<'tcx>) -> J {
        // Locals: type and (when the debug info names a bare local) the source name.
        let mut names: Vec<Option<String>> = vec![None; body.local_decls.len()];
        for vdi in &body.var_debug_info {
            if let rustc_middle::mir::VarDebugInfoContents::Place(p) = &vdi.value {
                if p.projection.is_empty() {
                    names[p.local.as_usize()] = Some(vdi.name.to_string());
                }
            }
        }
        let locals = J::A(
            body.local_decls
                .iter_enumerated()
                .map(|(l, d)| {
                    let mut v = vec![s(format!("{}", d.ty))];
                    if let Some(nm) = &names[l.as_usize()] {
                        v.push(s(nm.clone()));
                    }
                    J::A(v)
                })
                .collect(),
        );
        // Upvar debug names for closures: (field index -> name)
        let mut upvars = vec![];
        for vdi in &body.var_debug_info {
            if let rustc_middle::mir::VarDebugInfoContents::Place(p) = &vdi.value {
                if !p.projection.is_empty() && p.local.as_usize() == 1 {
                    upvars.push(J::A(vec![self.place(body, *p), s(vdi.name.to_string())]));
                }
            }
        }
        let blocks = J::A(
            body.basic_blocks
                .iter_enumerated()
                .map(|(_bb, data)| {
                    let mut stmts = vec![];
                    for st in &data.statements {
                        match &st.kind {
                            StatementKind::Assign(b) => {
                                let (pl, rv) = &**b;
                                stmts.push(J::A(vec![
                                    s("a"),
                                    self.place(body, *pl),
                                    self.rvalue(body, rv, env),
                                    self.line(st.source_info.span),
                                ]));
                            }
                            StatementKind::SetDiscriminant { place, variant_index } => {
                                stmts.push(J::A(vec![
                                    s("sd"),
                                    self.place(body, **place),
                                    n(variant_index.as_usize()),
                                    self.line(st.source_info.span),
                                ]));
                            }
                            _ => {}
                        }
                    }
                    let term = match &data.terminator {
                        Some(t) => self.terminator(body, t, env),
                        None => J::A(vec![s("none")]),
                    };
                    let mut o = vec![("s", J::A(stmts)), ("t", term)];
                    if data.is_cleanup {
                        o.push(("cleanup", J::B(true)));
                    }
                    J::O(o)
                })
                .collect(),
        );
        let mut o = vec![("locals", locals), ("blocks", blocks)];
        if !upvars.is_empty() {
            o.push(("upvars", J::A(upvars)));
        }
        J::O(o)
    }

    fn place(&self, body: &Body<'tcx>, p: Place<'tcx>) -> J {
        let tcx = self.tcx;
        if p.projection.is_empty() {
            return n(p.local.as_usize());
        }
        let mut pty = rustc_middle::mir::PlaceTy::from_ty(body.local_decls[p.local].ty);
        let mut elems = vec![];
        for elem in p.projection.iter() {
            let e = match elem {
                PlaceElem::Deref => s("*"),
                PlaceElem::Field(f, fty) => {
                    let mut name = J::Null;
                    let mut adt_path = J::Null;
                    match pty.ty.kind() {
                        ty::Adt(adt, _) => {
                            let vidx = pty.variant_index.unwrap_or(rustc_abi::FIRST_VARIANT);
                            if vidx.as_usize() < adt.variants().len() {
                                let v = adt.variant(vidx);
                                if f.as_usize() < v.fields.len() {
                                    name = s(v.fields[f].name.to_string());
                                }
                            }
                            adt_path = s(self.path(adt.did()));
                        }
                        ty::Tuple(_) => {
                            name = s(format!("{}", f.as_usize()));
                        }
                        ty::Closure(def, _) | ty::CoroutineClosure(def, _) | ty::Coroutine(def, _) => {
                            let names = tcx.closure_saved_names_of_captured_variables(*def);
                            if f.as_usize() < names.len() {
                                name = s(names[f].to_string());
                            } else {
                                name = s(format!("{}", f.as_usize()));
                            }
                        }
                        _ => {}
                    }
                    let _ = fty;
                    J::A(vec![s("f"), n(f.as_usize()), name, adt_path])
                }
                PlaceElem::Index(l) => J::A(vec![s("i"), n(l.as_usize())]),
                PlaceElem::ConstantIndex { offset, from_end, .. } => {
                    J::A(vec![s("ci"), n(offset), J::B(from_end)])
                }
                PlaceElem::Subslice { from, to, from_end } => {
                    J::A(vec![s("sub"), n(from), n(to), J::B(from_end)])
                }
                PlaceElem::Downcast(name, vidx) => {
                    let nm = match name {
                        Some(sym) => sym.to_string(),
                        None => match pty.ty.kind() {
                            ty::Adt(adt, _) if vidx.as_usize() < adt.variants().len() => {
                                adt.variant(vidx).name.to_string()
                            }
                            _ => format!("{}", vidx.as_usize()),
                        },
                    };
                    J::A(vec![s("d"), s(nm), n(vidx.as_usize())])
                }
                PlaceElem::OpaqueCast(_) => s("opaque"),
                PlaceElem::UnwrapUnsafeBinder(_) => s("unwrap_binder"),
            };
            elems.push(e);
            pty = pty.projection_ty(tcx, elem);
        }
        J::A(vec![n(p.local.as_usize()), J::A(elems)])
    }

    fn operand(&self, body: &Body<'tcx>, op: &Operand<'tcx>, env: TypingEnv<'tcx>) -> J {
        match op {
            Operand::Copy(p) => J::A(vec![s("c"), self.place(body, *p)]),
            Operand::Move(p) => J::A(vec![s("m"), self.place(body, *p)]),
            Operand::Constant(c) => self.constant(&c.const_, env),
            other => J::A(vec![s("k"), s("other"), s(format!("{:?}", other))]),
        }
    }

    fn constant(&self, c: &MirConst<'tcx>, env: TypingEnv<'tcx>) -> J {
        let tcx = self.tcx;
        let ty = c.ty();
        // Function items and closures used as values.
        match ty.kind() {
            ty::FnDef(def, args) => {
                return J::A(vec![s("k"), s("fn"), self.callee(*def, args, env)]);
            }
            ty::Closure(def, _) => {
                return J::A(vec![s("k"), s("closure"), s(self.path(*def))]);
            }
            _ => {}
        }
        if let MirConst::Unevaluated(uv, _) = c {
            if let Some(p) = uv.promoted {
                return J::A(vec![s("k"), s("promoted"), n(p.as_usize()), s(format!("{}", ty))]);
            }
        }
        let named = match c {
            MirConst::Unevaluated(uv, _) => Some(self.path(uv.def)),
            _ => None,
        };
        let mut val = J::Null;
        let mut tag = "opaque";
        if ty.is_integral() || ty.is_bool() || ty.is_char() {
            if let Some(si) = c.try_eval_scalar_int(tcx, env) {
                tag = "int";
                let size = si.size();
                if ty.is_signed() {
                    val = J::N(si.to_int(size));
                } else {
                    let u = si.to_uint(size);
                    val = if u <= i128::MAX as u128 { J::N(u as i128) } else { s(format!("{}", u)) };
                }
            }
        } else if let ty::Ref(_, inner, _) = ty.kind() {
            if inner.is_str() {
                if let Ok(v) = c.eval(tcx, env, rustc_span::DUMMY_SP) {
                    if let Some(bytes) = v.try_get_slice_bytes_for_diagnostics(tcx) {
                        tag = "str";
                        val = s(String::from_utf8_lossy(bytes).into_owned());
                    }
                }
            }
        }
        if tag == "opaque" && (ty.is_ref() || ty.is_raw_ptr()) {
            // references to statics: name the static
            if let Ok(rustc_middle::mir::ConstValue::Scalar(rustc_middle::mir::interpret::Scalar::Ptr(ptr, _))) =
                c.eval(tcx, env, rustc_span::DUMMY_SP)
            {
                let (prov, _off) = ptr.into_raw_parts();
                if let Some(rustc_middle::mir::interpret::GlobalAlloc::Static(def)) =
                    tcx.try_get_global_alloc(prov.alloc_id())
                {
                    return J::A(vec![s("k"), s("static"), s(self.path(def)), s(format!("{}", ty))]);
                }
            }
        }
        if tag == "opaque" {
            // `&[u8; N]` byte strings (e.g. format templates): emit the bytes as a hex string.
            if let ty::Ref(_, inner, _) = ty.kind() {
                let is_bytes = match inner.kind() {
                    ty::Array(e, _) | ty::Slice(e) => *e == tcx.types.u8,
                    _ => false,
                };
                if is_bytes {
                    if let Ok(v) = c.eval(tcx, env, rustc_span::DUMMY_SP) {
                        let mut bytes: Option<Vec<u8>> = None;
                        if let rustc_middle::mir::ConstValue::Slice { .. } = v {
                            if let Some(b) = v.try_get_slice_bytes_for_diagnostics(tcx) {
                                bytes = Some(b.to_vec());
                            }
                        } else if let rustc_middle::mir::ConstValue::Scalar(
                            rustc_middle::mir::interpret::Scalar::Ptr(ptr, _),
                        ) = v
                        {
                            let (prov, off) = ptr.into_raw_parts();
                            if let Some(rustc_middle::mir::interpret::GlobalAlloc::Memory(a)) =
                                tcx.try_get_global_alloc(prov.alloc_id())
                            {
                                let a = a.inner();
                                let start = off.bytes() as usize;
                                let all = a.inspect_with_uninit_and_ptr_outside_interpreter(0..a.len());
                                if start <= all.len() {
                                    bytes = Some(all[start..].to_vec());
                                }
                            }
                        }
                        if let Some(b) = bytes {
                            let hex: String = b.iter().map(|x| format!("{:02x}", x)).collect();
                            return J::A(vec![s("k"), s("bytes"), s(hex), s(format!("{}", ty))]);
                        }
                    }
                }
            }
        }
        if tag == "opaque" {
            let mut d = format!("{}", c);
            if d.len() > 200 {
                d.truncate(200);
            }
            val = s(d);
        }
        let mut v = vec![s("k"), s(tag), val, s(format!("{}", ty))];
        if let Some(nm) = named {
            v.push(s(nm));
        }
        J::A(v)
    }

    /// Describes a callee: resolved through `Instance::try_resolve` when possible.
    fn callee(&self, def: DefId, args: GenericArgsRef<'tcx>, env: TypingEnv<'tcx>) -> J {
        let tcx = self.tcx;
        let mut o: Vec<(&'static str, J)> = vec![];
        let orig = self.path(def);
        let mut resolved = false;
        // Skip resolution when args still need inference-free normalisation it cannot handle.
        let res = std::panic::catch_unwind(std::panic::AssertUnwindSafe(|| {
            Instance::try_resolve(tcx, env, def, args)
        }));
        if let Ok(Ok(Some(inst))) = res {
            let rdef = inst.def_id();
            let kind = match inst.def {
                ty::InstanceKind::Item(_) => "item",
                ty::InstanceKind::Virtual(..) => "virtual",
                ty::InstanceKind::FnPtrShim(..) => "fnptr_shim",
                ty::InstanceKind::ClosureOnceShim { .. } => "closure_once_shim",
                ty::InstanceKind::CloneShim(..) => "clone_shim",
                ty::InstanceKind::DropGlue(..) => "drop_glue",
                ty::InstanceKind::Intrinsic(..) => "intrinsic",
                ty::InstanceKind::ReifyShim(..) => "reify_shim",
                _ => "shim",
            };
            o.push(("r", s(kind)));
            o.push(("path", s(self.path(rdef))));
            o.push(("args", self.args_j(inst.args)));
            if rdef != def {
                o.push(("via", s(orig.clone())));
                o.push(("via_args", self.args_j(args)));
            }
            resolved = true;
        }
        if !resolved {
            o.push(("r", s("unresolved")));
            o.push(("path", s(orig)));
            o.push(("args", self.args_j(args)));
        }
        // Trait method info (for CHA on unresolved calls and for matching by trait).
        if let Some(tr) = tcx.trait_of_assoc(def) {
            o.push(("trait", s(self.path(tr))));
            o.push(("method", s(tcx.item_name(def).to_string())));
            if args.len() > 0 {
                if let Some(t) = args.get(0).and_then(|a| a.as_type()) {
                    o.push(("self_ty", s(format!("{}", t))));
                }
            }
        }
        J::O(o)
    }

    fn rvalue(&self, body: &Body<'tcx>, rv: &Rvalue<'tcx>, env: TypingEnv<'tcx>) -> J {
        match rv {
            Rvalue::Use(op, _) => J::A(vec![s("use"), self.operand(body, op, env)]),
            Rvalue::CopyForDeref(p) => {
                J::A(vec![s("use"), J::A(vec![s("c"), self.place(body, *p)])])
            }
            Rvalue::Repeat(op, c) => {
                J::A(vec![s("repeat"), self.operand(body, op, env), s(format!("{}", c))])
            }
            Rvalue::Ref(_, bk, p) => J::A(vec![
                s("ref"),
                self.place(body, *p),
                J::B(matches!(bk, rustc_middle::mir::BorrowKind::Mut { .. })),
            ]),
            Rvalue::RawPtr(_, p) => J::A(vec![s("ref"), self.place(body, *p), J::B(true)]),
            Rvalue::Cast(kind, op, ty) => J::A(vec![
                s("cast"),
                s(format!("{:?}", kind).split('(').next().unwrap_or("").to_string()),
                self.operand(body, op, env),
                s(format!("{}", ty)),
            ]),
            Rvalue::BinaryOp(op, b) => J::A(vec![
                s("bin"),
                s(format!("{:?}", op)),
                self.operand(body, &b.0, env),
                self.operand(body, &b.1, env),
            ]),
            Rvalue::UnaryOp(op, a) => {
                J::A(vec![s("un"), s(format!("{:?}", op)), self.operand(body, a, env)])
            }
            Rvalue::Discriminant(p) => {
                let pty = p.ty(&body.local_decls, self.tcx).ty;
                let adt = match pty.kind() {
                    ty::Adt(adt, _) => s(self.path(adt.did())),
                    _ => J::Null,
                };
                J::A(vec![s("disc"), self.place(body, *p), adt])
            }
            Rvalue::Aggregate(kind, ops) => {
                let opsj = J::A(ops.iter().map(|o| self.operand(body, o, env)).collect());
                match &**kind {
                    AggregateKind::Array(t) => J::A(vec![s("agg"), s("array"), s(format!("{}", t)), opsj]),
                    AggregateKind::Tuple => J::A(vec![s("agg"), s("tuple"), J::Null, opsj]),
                    AggregateKind::Adt(def, vidx, _args, _, active) => {
                        let adt = self.tcx.adt_def(*def);
                        let v = adt.variant(*vidx);
                        let fields = if let Some(a) = active {
                            J::A(vec![s(v.fields[*a].name.to_string())])
                        } else {
                            J::A(v.fields.iter().map(|f| s(f.name.to_string())).collect())
                        };
                        J::A(vec![
                            s("agg"),
                            s("adt"),
                            s(self.path(*def)),
                            opsj,
                            s(v.name.to_string()),
                            fields,
                            n(vidx.as_usize()),
                        ])
                    }
                    AggregateKind::Closure(def, _) | AggregateKind::CoroutineClosure(def, _) => {
                        J::A(vec![s("agg"), s("closure"), s(self.path(*def)), opsj])
                    }
                    AggregateKind::Coroutine(def, _) => {
                        J::A(vec![s("agg"), s("coroutine"), s(self.path(*def)), opsj])
                    }
                    AggregateKind::RawPtr(..) => J::A(vec![s("agg"), s("rawptr"), J::Null, opsj]),
                }
            }
            Rvalue::ThreadLocalRef(def) => J::A(vec![s("tls"), s(self.path(*def))]),
            other => {
                let mut d = format!("{:?}", other);
                d.truncate(120);
                J::A(vec![s("other"), s(d)])
            }
        }
    }

    fn terminator(
        &self,
        body: &Body<'tcx>,
        t: &rustc_middle::mir::Terminator<'tcx>,
        env: TypingEnv<'tcx>,
    ) -> J {
        let bb = |b: BasicBlock| n(b.as_usize());
        let span = t.source_info.span;
        match &t.kind {
            TerminatorKind::Goto { target } => J::A(vec![s("goto"), bb(*target)]),
            TerminatorKind::SwitchInt { discr, targets } => {
                let arms = J::A(
                    targets
                        .iter()
                        .map(|(v, b)| {
                            J::A(vec![
                                if v <= i128::MAX as u128 { J::N(v as i128) } else { s(format!("{}", v)) },
                                bb(b),
                            ])
                        })
                        .collect(),
                );
                J::A(vec![
                    s("switch"),
                    self.operand(body, discr, env),
                    arms,
                    bb(targets.otherwise()),
                    self.line(span),
                ])
            }
            TerminatorKind::Return => J::A(vec![s("ret")]),
            TerminatorKind::Unreachable => J::A(vec![s("unreachable")]),
            TerminatorKind::UnwindResume => J::A(vec![s("resume")]),
            TerminatorKind::UnwindTerminate(_) => J::A(vec![s("abort")]),
            TerminatorKind::Drop { place, target, .. } => {
                J::A(vec![s("drop"), self.place(body, *place), bb(*target)])
            }
            TerminatorKind::Call { func, args, destination, target, fn_span, .. } => {
                let f = match func {
                    Operand::Constant(c) => match c.const_.ty().kind() {
                        ty::FnDef(def, ga) => self.callee(*def, ga, env),
                        _ => J::O(vec![("r", s("ptr")), ("op", self.operand(body, func, env))]),
                    },
                    _ => J::O(vec![("r", s("ptr")), ("op", self.operand(body, func, env))]),
                };
                let argsj = J::A(args.iter().map(|a| self.operand(body, &a.node, env)).collect());
                let diverges = target.is_none();
                J::A(vec![
                    s("call"),
                    f,
                    argsj,
                    self.place(body, *destination),
                    match target {
                        Some(t) => bb(*t),
                        None => J::Null,
                    },
                    self.line(*fn_span),
                    self.macros(span),
                    J::B(diverges),
                ])
            }
            TerminatorKind::TailCall { func, args, .. } => {
                let f = match func {
                    Operand::Constant(c) => match c.const_.ty().kind() {
                        ty::FnDef(def, ga) => self.callee(*def, ga, env),
                        _ => J::O(vec![("r", s("ptr"))]),
                    },
                    _ => J::O(vec![("r", s("ptr"))]),
                };
                let argsj = J::A(args.iter().map(|a| self.operand(body, &a.node, env)).collect());
                J::A(vec![s("call"), f, argsj, n(0), J::Null, self.line(span), self.macros(span), J::B(false)])
            }
            TerminatorKind::Assert { cond, expected, msg, target, .. } => {
                let (kind, ops): (String, Vec<J>) = match &**msg {
                    AssertKind::BoundsCheck { len, index } => (
                        "BoundsCheck".into(),
                        vec![self.operand(body, len, env), self.operand(body, index, env)],
                    ),
                    AssertKind::Overflow(op, a, b) => (
                        format!("Overflow({:?})", op),
                        vec![self.operand(body, a, env), self.operand(body, b, env)],
                    ),
                    AssertKind::OverflowNeg(a) => ("OverflowNeg".into(), vec![self.operand(body, a, env)]),
                    AssertKind::DivisionByZero(a) => {
                        ("DivisionByZero".into(), vec![self.operand(body, a, env)])
                    }
                    AssertKind::RemainderByZero(a) => {
                        ("RemainderByZero".into(), vec![self.operand(body, a, env)])
                    }
                    AssertKind::MisalignedPointerDereference { .. } => ("Misaligned".into(), vec![]),
                    AssertKind::NullPointerDereference => ("NullPtr".into(), vec![]),
                    AssertKind::InvalidEnumConstruction(_) => ("InvalidEnum".into(), vec![]),
                    _ => ("Other".into(), vec![]),
                };
                J::A(vec![
                    s("assert"),
                    self.operand(body, cond, env),
                    J::B(*expected),
                    s(kind),
                    J::A(ops),
                    bb(*target),
                    self.line(span),
                    self.macros(span),
                ])
            }
            TerminatorKind::Yield { resume, .. } => J::A(vec![s("goto"), bb(*resume)]),
            TerminatorKind::CoroutineDrop => J::A(vec![s("ret")]),
            TerminatorKind::FalseEdge { real_target, .. } => J::A(vec![s("goto"), bb(*real_target)]),
            TerminatorKind::FalseUnwind { real_target, .. } => J::A(vec![s("goto"), bb(*real_target)]),
            TerminatorKind::InlineAsm { .. } => J::A(vec![s("unreachable")]),
        }
    }

    fn ty_s(&self, t: Ty<'tcx>) -> J {
        s(format!("{}", t))
    }

    fn dump_adt(&self, def: LocalDefId) -> J {
        let tcx = self.tcx;
        let did = def.to_def_id();
        let adt = tcx.adt_def(did);
        let (file, line) = self.loc(tcx.def_span(did));
        let variants = J::A(
            adt.variants()
                .iter()
                .map(|v| {
                    J::O(vec![
                        ("name", s(v.name.to_string())),
                        (
                            "fields",
                            J::A(
                                v.fields
                                    .iter()
                                    .map(|f| {
                                        let fty = tcx.type_of(f.did).instantiate_identity().skip_norm_wip();
                                        J::A(vec![s(f.name.to_string()), self.ty_s(fty)])
                                    })
                                    .collect(),
                            ),
                        ),
                    ])
                })
                .collect(),
        );
        J::O(vec![
            ("k", s("adt")),
            ("path", s(self.path(did))),
            ("kind", s(if adt.is_enum() { "enum" } else if adt.is_union() { "union" } else { "struct" })),
            ("file", s(file)),
            ("line", n(line)),
            ("variants", variants),
        ])
    }

    fn dump_impl(&self, def: LocalDefId) -> J {
        let tcx = self.tcx;
        let did = def.to_def_id();
        let (file, line) = self.loc(tcx.def_span(did));
        let self_ty = tcx.type_of(did).instantiate_identity().skip_norm_wip();
        let mut o = vec![
            ("k", s("impl")),
            ("file", s(file)),
            ("line", n(line)),
            ("self_ty", self.ty_s(self_ty)),
            ("derived", J::B(tcx.is_automatically_derived(did))),
        ];
        if let Some(adt) = self_ty.ty_adt_def() {
            o.push(("self_adt", s(self.path(adt.did()))));
        }
        if let DefKind::Impl { of_trait: true } = tcx.def_kind(did) {
            let tr = tcx.impl_trait_ref(did).instantiate_identity().skip_norm_wip();
            o.push(("trait", s(self.path(tr.def_id))));
            o.push(("trait_ref", s(format!("{}", tr))));
        }
        let items = J::A(
            tcx.associated_items(did)
                .in_definition_order()
                .filter_map(|it| it.opt_name().map(|nm| J::A(vec![s(nm.to_string()), s(self.path(it.def_id))])))
                .collect(),
        );
        o.push(("items", items));
        J::O(o)
    }
}
