//! An enum const with a huge variant selector must be rejected, not panic.
use std::panic::{AssertUnwindSafe, catch_unwind};

use cairo_lang_sierra::ProgramParser;
use cairo_lang_sierra::extensions::core::{CoreLibfunc, CoreType};
use cairo_lang_sierra::program_registry::ProgramRegistry;

fn check(selector: &str) -> bool {
    let text = format!(
        "type felt252 = felt252;\ntype E = Enum<ut@E, felt252, felt252>;\ntype CF = Const<felt252, 5>;\ntype C = \
         Const<E, {selector}, CF>;\n"
    );
    let program = ProgramParser::new().parse(&text).expect("program must parse");
    let res = catch_unwind(AssertUnwindSafe(|| {
        ProgramRegistry::<CoreType, CoreLibfunc>::new(&program).map(|_| ()).map_err(|e| format!("{e:?}"))
    }));
    match &res {
        Ok(r) => eprintln!("selector={selector}: returned {r:?}"),
        Err(_) => eprintln!("selector={selector}: PANICKED"),
    }
    res.is_ok()
}

#[test]
fn valid_selector() {
    assert!(check("1"));
}

#[test]
fn selector_out_of_range() {
    assert!(check("7"));
}

#[test]
fn selector_usize_max() {
    assert!(check("18446744073709551615"), "panicked");
}
