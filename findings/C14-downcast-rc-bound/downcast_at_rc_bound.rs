//! A `downcast` whose target range touches 2**128 must compile (or be rejected), not panic.
use std::panic::{AssertUnwindSafe, catch_unwind};

use cairo_lang_sierra::ProgramParser;
use cairo_lang_sierra_to_casm::compiler::{SierraToCasmConfig, compile};
use cairo_lang_sierra_to_casm::metadata::{MetadataComputationConfig, calc_metadata};
use cairo_lang_sierra_type_size::ProgramRegistryInfo;

fn program(from: (&str, &str), to: (&str, &str)) -> String {
    format!(
        "type RangeCheck = RangeCheck;\ntype From = BoundedInt<{}, {}>;\ntype To = BoundedInt<{}, {}>;\n\
         libfunc dc = downcast<From, To>;\nlibfunc ba = branch_align;\nlibfunc dr = drop<To>;\nlibfunc st = \
         store_temp<RangeCheck>;\n\
         dc([0], [1]) {{ fallthrough([2], [3]) 5([4]) }};\nba() -> ();\ndr([3]) -> ();\nst([2]) -> ([2]);\nreturn([2]);\n\
         ba() -> ();\nst([4]) -> ([4]);\nreturn([4]);\n\
         foo@0([0]: RangeCheck, [1]: From) -> (RangeCheck);\n",
        from.0, from.1, to.0, to.1
    )
}

fn check(name: &str, from: (&str, &str), to: (&str, &str)) -> bool {
    let text = program(from, to);
    let program = ProgramParser::new().parse(&text).expect("program must parse");
    let info = match ProgramRegistryInfo::new(&program) { Ok(i) => i, Err(e) => { eprintln!("{name}: registry error {e:?}"); return true; } };
    let res = catch_unwind(AssertUnwindSafe(|| {
        let metadata = calc_metadata(&program, &info, MetadataComputationConfig::default())
            .map_err(|e| format!("{e:?}"))?;
        compile(
            &program,
            &info,
            &metadata,
            SierraToCasmConfig { gas_usage_check: true, max_bytecode_size: usize::MAX },
        )
        .map(|p| p.instructions.len())
        .map_err(|e| format!("{e:?}"))
    }));
    match &res {
        Ok(r) => eprintln!("{name}: returned {r:?}"),
        Err(_) => eprintln!("{name}: PANICKED"),
    }
    res.is_ok()
}

const P128: &str = "340282366920938463463374607431768211456"; // 2**128
const P128M1: &str = "340282366920938463463374607431768211455"; // 2**128 - 1
const P128P99: &str = "340282366920938463463374607431768211555"; // 2**128 + 99
const P128M10: &str = "340282366920938463463374607431768211446"; // 2**128 - 10
const P128P10: &str = "340282366920938463463374607431768211466"; // 2**128 + 10

#[test]
fn above_only_below_the_bound() {
    assert!(check("above-only to [100, 200]", ("100", "300"), ("100", "200")));
}

#[test]
fn above_only_ending_at_u128_max() {
    assert!(check("above-only to [100, 2**128-1]", ("100", P128P99), ("100", P128M1)), "panicked");
}

#[test]
fn below_only_starting_at_rc_bound() {
    assert!(check("below-only to [2**128, 2**128+10]", (P128M10, P128P10), (P128, P128P10)), "panicked");
}

#[test]
fn both_sides_ending_at_u128_max() {
    assert!(check("both to [200, 2**128-1]", ("100", P128P99), ("200", P128M1)), "panicked");
}
