//! Untrusted Sierra must be handled totally: `ProgramRegistry::new` either accepts a program or
//! returns an error value - it never panics.
//!
//! The programs below declare a `Circuit` whose outputs tuple contains a type that is not a
//! circuit component (neither a `CircuitInput` nor a gate), and whose own generic arguments are
//! not types. Such a circuit must be rejected with a specialization error.

use std::panic::{AssertUnwindSafe, catch_unwind};
use std::sync::mpsc;
use std::time::Duration;

use cairo_lang_sierra::ProgramParser;
use cairo_lang_sierra::extensions::core::{CoreLibfunc, CoreType};
use cairo_lang_sierra::program_registry::{ProgramRegistry, ProgramRegistryError};

/// The outcome of running the registry creation on an untrusted program.
#[derive(Debug)]
#[allow(dead_code)]
enum Outcome {
    Accepted,
    Rejected(Box<ProgramRegistryError>),
    Panicked(String),
    TimedOut,
}

/// Parses `sierra_code` and builds the registry for it in a separate thread, catching panics and
/// guarding against hangs.
fn build_registry(sierra_code: &'static str) -> Outcome {
    let (tx, rx) = mpsc::channel();
    std::thread::Builder::new()
        .stack_size(16 * 1024 * 1024)
        .spawn(move || {
            let program = ProgramParser::new().parse(sierra_code).expect("The program is parsable.");
            let result = catch_unwind(AssertUnwindSafe(|| {
                ProgramRegistry::<CoreType, CoreLibfunc>::new(&program).map(|_| ())
            }));
            let _ = tx.send(match result {
                Ok(Ok(())) => Outcome::Accepted,
                Ok(Err(err)) => Outcome::Rejected(err),
                Err(payload) => Outcome::Panicked(
                    payload
                        .downcast_ref::<String>()
                        .cloned()
                        .or_else(|| payload.downcast_ref::<&str>().map(|s| s.to_string()))
                        .unwrap_or_else(|| "<non-string panic payload>".into()),
                ),
            });
        })
        .expect("Failed spawning the worker thread.");
    rx.recv_timeout(Duration::from_secs(15)).unwrap_or(Outcome::TimedOut)
}


/// A gate that is its own input (declarable through declared type info, which lets a type refer to
/// itself) must be rejected; the registry must not loop on it.
#[test]
fn self_referential_gate_is_rejected() {
    let outcome = build_registry(
        "
        type In0 = CircuitInput<0>;
        type G = AddModGate<G, In0> [storable: false, drop: false, dup: false, zero_sized: true];
        type Outputs = Struct<ut@Tuple, G>;
        type Circ = Circuit<Outputs>;

        return();

        foo@0() -> ();
        ",
    );
    assert!(matches!(outcome, Outcome::Rejected(_)), "expected a rejection, got {outcome:?}");
}

/// Two gates that are each other's input.
#[test]
fn mutually_referential_gates_are_rejected() {
    let outcome = build_registry(
        "
        type In0 = CircuitInput<0>;
        type A = AddModGate<B, In0> [storable: false, drop: false, dup: false, zero_sized: true];
        type B = MulModGate<A, In0> [storable: false, drop: false, dup: false, zero_sized: true];
        type Outputs = Struct<ut@Tuple, A>;
        type Circ = Circuit<Outputs>;

        return();

        foo@0() -> ();
        ",
    );
    assert!(matches!(outcome, Outcome::Rejected(_)), "expected a rejection, got {outcome:?}");
}

/// A gate shared by two other gates (a DAG, no cycle) is fine.
#[test]
fn shared_gate_is_accepted() {
    let outcome = build_registry(
        "
        type In0 = CircuitInput<0>;
        type In1 = CircuitInput<1>;
        type S = AddModGate<In0, In1>;
        type A = MulModGate<S, S>;
        type B = AddModGate<A, S>;
        type Outputs = Struct<ut@Tuple, A, B>;
        type Circ = Circuit<Outputs>;

        return();

        foo@0() -> ();
        ",
    );
    assert!(matches!(outcome, Outcome::Accepted), "expected acceptance, got {outcome:?}");
}
