//! Checks that the diagnostics a macro plugin reports for a crate are the very same whether the
//! crate is analysed from source or loaded from its pre-generated crate cache - including the
//! `error_code` a plugin attached with `PluginDiagnostic::with_error_code`.

use cairo_lang_compiler::db::RootDatabase;
use cairo_lang_compiler::diagnostics::DiagnosticsReporter;
use cairo_lang_defs::ids::ModuleId;
use cairo_lang_defs::plugin::{MacroPlugin, MacroPluginMetadata, PluginDiagnostic, PluginResult};
use cairo_lang_diagnostics::{DiagnosticEntry, ErrorCode, error_code};
use cairo_lang_filesystem::db::FilesGroup;
use cairo_lang_filesystem::ids::{BlobLongId, CrateId, SmolStrId};
use cairo_lang_lowering::cache::generate_crate_cache;
use cairo_lang_semantic::db::SemanticGroup;
use cairo_lang_semantic::plugin::PluginSuite;
use cairo_lang_semantic::test_utils::setup_test_crate_ex;
use cairo_lang_syntax::node::helpers::QueryAttrs;
use cairo_lang_syntax::node::{TypedStablePtr, TypedSyntaxNode, ast};
use cairo_lang_utils::Intern;
use salsa::Database;

const CODED_WARNING_ATTR: &str = "coded_warning";
const CODED_ERROR_CODE: ErrorCode = error_code!(E9999);

/// A macro plugin reporting a warning that carries an explicit error code on every item marked
/// with `#[coded_warning]`. The item itself is left untouched and no code is generated.
#[derive(Debug, Default)]
struct CodedWarningPlugin;

impl MacroPlugin for CodedWarningPlugin {
    fn generate_code<'db>(
        &self,
        db: &'db dyn Database,
        item_ast: ast::ModuleItem<'db>,
        _metadata: &MacroPluginMetadata<'_>,
    ) -> PluginResult<'db> {
        if !item_ast.has_attr(db, CODED_WARNING_ATTR) {
            return PluginResult::default();
        }
        PluginResult {
            code: None,
            diagnostics: vec![
                PluginDiagnostic::warning(
                    item_ast.stable_ptr(db).untyped(),
                    "This item is marked with `#[coded_warning]`.".to_string(),
                )
                .with_error_code(CODED_ERROR_CODE),
            ],
            remove_original_item: false,
        }
    }

    fn declared_attributes<'db>(&self, db: &'db dyn Database) -> Vec<SmolStrId<'db>> {
        vec![SmolStrId::from(db, CODED_WARNING_ATTR)]
    }
}

/// A fresh compiler database (the production `RootDatabase`) with [CodedWarningPlugin] registered
/// on top of the default plugin suite.
fn new_db() -> RootDatabase {
    let mut suite = PluginSuite::default();
    suite.add_plugin::<CodedWarningPlugin>();
    RootDatabase::builder().detect_corelib().with_default_plugin_suite(suite).build().unwrap()
}

/// What the user gets to see for a crate.
#[derive(Debug, PartialEq, Eq)]
struct Observed {
    /// The diagnostics, exactly as the compiler's [DiagnosticsReporter] prints them.
    reported: String,
    /// `(error code, message)` of every semantic diagnostic entry of the crate's root module.
    entries: Vec<(Option<ErrorCode>, String)>,
}

fn observe<'db>(db: &'db RootDatabase, crate_id: CrateId<'db>) -> Observed {
    let crate_input = db.crate_input(crate_id).clone();
    let mut reported = String::new();
    DiagnosticsReporter::write_to_string(&mut reported).with_crates(&[crate_input]).check(db);

    let entries = db
        .module_semantic_diagnostics(ModuleId::CrateRoot(crate_id))
        .unwrap()
        .get_all()
        .into_iter()
        .map(|entry| (entry.error_code(), entry.format(db)))
        .collect();
    Observed { reported, entries }
}

const CONTENT: &str = "\
#[coded_warning]
fn foo() -> felt252 {
    1
}
";

#[test]
fn plugin_diagnostic_error_code_survives_crate_cache() {
    // (1) The crate, analysed from source.
    let source_db = new_db();
    let source_crate = setup_test_crate_ex(&source_db, CONTENT, None, None);
    let from_source = observe(&source_db, source_crate);

    // Sanity: the plugin ran, and its error code reaches the user when compiling from source.
    assert_eq!(
        from_source.entries,
        vec![(
            Some(CODED_ERROR_CODE),
            "Plugin diagnostic: This item is marked with `#[coded_warning]`.".to_string()
        )],
        "unexpected diagnostics when compiling from source:\n{}",
        from_source.reported
    );
    assert!(
        from_source.reported.starts_with("warning[E9999]: Plugin diagnostic: "),
        "unexpected diagnostics when compiling from source:\n{}",
        from_source.reported
    );

    // (2) The crate cache, generated out of the very same database.
    let artifact = generate_crate_cache(&source_db, source_crate).unwrap();

    // (3) The same crate in a fresh database with the same plugins, loaded from its cache.
    let cached_db = new_db();
    let cache_file = BlobLongId::Virtual(artifact).intern(&cached_db);
    let cached_crate = setup_test_crate_ex(&cached_db, CONTENT, None, Some(cache_file));
    let from_cache = observe(&cached_db, cached_crate);

    println!("=== from source ===\n{}", from_source.reported);
    println!("=== from cache ===\n{}", from_cache.reported);
    println!("from source entries: {:?}", from_source.entries);
    println!("from cache entries:  {:?}", from_cache.entries);

    // (4) Both must be exactly the same.
    assert_eq!(
        from_source, from_cache,
        "the diagnostics of a crate loaded from its cache differ from the ones it gets when \
         compiled from source"
    );
}
