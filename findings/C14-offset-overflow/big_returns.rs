//! A function whose return values span more than 2^15 cells must be rejected, not panic.
use std::panic::{AssertUnwindSafe, catch_unwind};

use cairo_lang_sierra::ProgramParser;
use cairo_lang_sierra_to_casm::compiler::{SierraToCasmConfig, compile};
use cairo_lang_sierra_to_casm::metadata::calc_metadata_ap_change_only;
use cairo_lang_sierra_type_size::ProgramRegistryInfo;

fn program(levels: usize, n_rets: usize) -> String {
    let mut s = String::from("type felt252 = felt252;\n");
    s += "type T0 = Struct<ut@T0, felt252, felt252>;\n";
    for i in 1..=levels {
        s += &format!("type T{i} = Struct<ut@T{i}, T{}, T{}>;\n", i - 1, i - 1);
    }
    let t = format!("T{levels}");
    s += "libfunc call_foo = function_call<user@foo>;\n";
    s += &format!("libfunc drop_t = drop<{t}>;\n");
    let vars: Vec<String> = (0..n_rets).map(|i| format!("[{i}]")).collect();
    let vars_s = vars.join(", ");
    s += &format!("call_foo() -> ({vars_s});\n");
    s += &format!("return({vars_s});\n");
    s += &format!("call_foo() -> ({vars_s});\n");
    for v in &vars {
        s += &format!("drop_t({v}) -> ();\n");
    }
    s += "return();\n";
    let rets: Vec<String> = (0..n_rets).map(|_| t.clone()).collect();
    s += &format!("foo@0() -> ({});\n", rets.join(", "));
    s += "main@2() -> ();\n";
    s
}

fn check(levels: usize, n_rets: usize) -> bool {
    let text = program(levels, n_rets);
    let program = ProgramParser::new().parse(&text).expect("program must parse");
    let info = match ProgramRegistryInfo::new(&program) {
        Ok(i) => i,
        Err(e) => {
            eprintln!("rejected by the registry: {e:?}");
            return true;
        }
    };
    let res = catch_unwind(AssertUnwindSafe(|| {
        let metadata = calc_metadata_ap_change_only(&program, &info).map_err(|e| format!("{e:?}"))?;
        compile(
            &program,
            &info,
            &metadata,
            SierraToCasmConfig { gas_usage_check: false, max_bytecode_size: usize::MAX },
        )
        .map(|_| ())
        .map_err(|e| format!("{e:?}"))
    }));
    match &res {
        Ok(r) => eprintln!("levels={levels} n_rets={n_rets}: returned {r:?}"),
        Err(_) => eprintln!("levels={levels} n_rets={n_rets}: PANICKED"),
    }
    res.is_ok()
}

#[test]
fn small_is_fine() {
    assert!(check(3, 3));
}

#[test]
fn two_values_of_16384_cells() {
    assert!(check(13, 2), "compile panicked");
}

#[test]
fn three_values_of_16384_cells() {
    assert!(check(13, 3), "compile panicked");
}

fn params_program(levels: usize, n_params: usize) -> String {
    let mut s = String::from("type felt252 = felt252;\n");
    s += "type T0 = Struct<ut@T0, felt252, felt252>;\n";
    for i in 1..=levels {
        s += &format!("type T{i} = Struct<ut@T{i}, T{}, T{}>;\n", i - 1, i - 1);
    }
    let t = format!("T{levels}");
    s += &format!("libfunc drop_t = drop<{t}>;\n");
    for i in 0..n_params {
        s += &format!("drop_t([{i}]) -> ();\n");
    }
    s += "return();\n";
    let params: Vec<String> = (0..n_params).map(|i| format!("[{i}]: {t}")).collect();
    s += &format!("foo@0({}) -> ();\n", params.join(", "));
    s
}

fn check_params(levels: usize, n_params: usize) -> bool {
    let text = params_program(levels, n_params);
    let program = ProgramParser::new().parse(&text).expect("program must parse");
    let info = match ProgramRegistryInfo::new(&program) {
        Ok(i) => i,
        Err(e) => {
            eprintln!("rejected by the registry: {e:?}");
            return true;
        }
    };
    let res = catch_unwind(AssertUnwindSafe(|| {
        let metadata = calc_metadata_ap_change_only(&program, &info).map_err(|e| format!("{e:?}"))?;
        compile(
            &program,
            &info,
            &metadata,
            SierraToCasmConfig { gas_usage_check: false, max_bytecode_size: usize::MAX },
        )
        .map(|_| ())
        .map_err(|e| format!("{e:?}"))
    }));
    match &res {
        Ok(r) => eprintln!("params levels={levels} n={n_params}: returned {r:?}"),
        Err(_) => eprintln!("params levels={levels} n={n_params}: PANICKED"),
    }
    res.is_ok()
}

#[test]
fn small_params_are_fine() {
    assert!(check_params(3, 3));
}

#[test]
fn two_params_of_16384_cells() {
    assert!(check_params(13, 2), "compile panicked");
}

#[test]
fn three_params_of_16384_cells() {
    assert!(check_params(13, 3), "compile panicked");
}
