//! A known function ap-change close to usize::MAX must not make the compilation of a call panic.
use std::panic::{AssertUnwindSafe, catch_unwind};

use cairo_lang_sierra::ProgramParser;
use cairo_lang_sierra_to_casm::compiler::{SierraToCasmConfig, compile};
use cairo_lang_sierra_to_casm::metadata::calc_metadata_ap_change_only;
use cairo_lang_sierra_type_size::ProgramRegistryInfo;

/// f0 does nothing; f_k calls f_{k-1} twice; the top function adds `extra` to its ap-change.
/// ap_change(f_k) + 2 = 2 * (ap_change(f_{k-1}) + 2) + 2 [+ extra for the top one].
fn program(n: usize, extra: usize, hide: bool) -> String {
    let mut s = String::from("type felt252 = felt252;\n");
    s += "libfunc c = felt252_const<1>;\nlibfunc st = store_temp<felt252>;\nlibfunc dr = drop<felt252>;\n";
    s += "libfunc disable = disable_ap_tracking;\n";
    for k in 0..=n {
        s += &format!("libfunc call_f{k} = function_call<user@f{k}>;\n");
    }
    s += "libfunc call_g = function_call<user@g>;\n";
    let mut entry = vec![];
    let mut idx = 0;
    // f0
    entry.push(idx);
    s += "return();\n";
    idx += 1;
    for k in 1..=n {
        entry.push(idx);
        if k == n {
            for i in 0..extra {
                s += &format!("c() -> ([{i}]);\nst([{i}]) -> ([{i}]);\ndr([{i}]) -> ();\n");
                idx += 3;
            }
        }
        s += &format!("call_f{}() -> ();\ncall_f{}() -> ();\nreturn();\n", k - 1, k - 1);
        idx += 3;
    }
    // g: recursive, unknown ap-change.
    let g_entry = idx;
    s += "call_g() -> ();\nreturn();\n";
    idx += 2;
    let main_entry = idx;
    if hide {
        s += "disable() -> ();\n";
    }
    s += &format!("call_f{n}() -> ();\n");
    if hide {
        s += "call_g() -> ();\n";
    }
    s += "return();\n";
    for k in 0..=n {
        s += &format!("f{k}@{}() -> ();\n", entry[k]);
    }
    s += &format!("g@{g_entry}() -> ();\nmain@{main_entry}() -> ();\n");
    s
}

fn check(n: usize, extra: usize, hide: bool) -> bool {
    let text = program(n, extra, hide);
    let program = ProgramParser::new().parse(&text).expect("program must parse");
    let info = ProgramRegistryInfo::new(&program).expect("registry");
    let res = catch_unwind(AssertUnwindSafe(|| {
        let metadata = calc_metadata_ap_change_only(&program, &info).map_err(|e| format!("{e:?}"))?;
        if let Some(x) = metadata.ap_change_info.function_ap_change.iter().map(|(_, v)| *v).max() {
            eprintln!("largest known function ap-change: {x} (usize::MAX - {})", usize::MAX - x);
        }
        compile(
            &program,
            &info,
            &metadata,
            SierraToCasmConfig { gas_usage_check: false, max_bytecode_size: usize::MAX },
        )
        .map(|_| ())
        .map_err(|e| format!("{e:?}"))
    }));
    match &res {
        Ok(r) => eprintln!("n={n} extra={extra} hide={hide}: returned {r:?}"),
        Err(_) => eprintln!("n={n} extra={extra} hide={hide}: PANICKED"),
    }
    res.is_ok()
}

#[test]
fn small_chain() {
    assert!(check(5, 2, true));
}

#[test]
fn max_minus_one_visible() {
    assert!(check(62, 2, false), "panicked");
}

#[test]
fn max_minus_one_hidden_from_the_ap_change_pass() {
    assert!(check(62, 2, true), "panicked");
}
