//! Returning values that fill exactly 2^15 cells of the stack must not panic.
use std::panic::{AssertUnwindSafe, catch_unwind};

use cairo_lang_sierra::ProgramParser;
use cairo_lang_sierra_to_casm::compiler::{SierraToCasmConfig, compile};
use cairo_lang_sierra_to_casm::metadata::calc_metadata_ap_change_only;
use cairo_lang_sierra_type_size::ProgramRegistryInfo;

fn program(levels: usize) -> String {
    let mut s = String::from("type felt252 = felt252;\n");
    s += "type T0 = Struct<ut@T0, felt252, felt252>;\n";
    for i in 1..=levels {
        s += &format!("type T{i} = Struct<ut@T{i}, T{}, T{}>;\n", i - 1, i - 1);
    }
    let t = format!("T{levels}");
    s += &format!("type U = Uninitialized<{t}>;\n");
    s += "libfunc call_g = function_call<user@g>;\n";
    s += &format!("libfunc st = store_temp<{t}>;\n");
    s += &format!("libfunc alloc = alloc_local<{t}>;\nlibfunc fin = finalize_locals;\nlibfunc sl = store_local<{t}>;\n");
    // g: 0..1
    s += "call_g() -> ([0]);\nreturn([0]);\n";
    // f: 2..
    s += "alloc() -> ([9]);\nfin() -> ();\ncall_g() -> ([0]);\nsl([9], [0]) -> ([0]);\ncall_g() -> ([1]);\n";
    s += "st([0]) -> ([2]);\nst([1]) -> ([3]);\nreturn([2], [3]);\n";
    s += &format!("g@0() -> ({t});\nf@2() -> ({t}, {t});\n");
    s
}

fn check(levels: usize) -> bool {
    let text = program(levels);
    let program = ProgramParser::new().parse(&text).expect("program must parse");
    let info = ProgramRegistryInfo::new(&program).expect("registry");
    let res = catch_unwind(AssertUnwindSafe(|| {
        let metadata = calc_metadata_ap_change_only(&program, &info).map_err(|e| format!("{e:?}"))?;
        compile(
            &program,
            &info,
            &metadata,
            SierraToCasmConfig { gas_usage_check: false, max_bytecode_size: usize::MAX },
        )
        .map(|p| p.instructions.len())
        .map_err(|e| format!("{e:?}"))
    }));
    match &res {
        Ok(r) => eprintln!("levels={levels}: returned {r:?}"),
        Err(_) => eprintln!("levels={levels}: PANICKED"),
    }
    res.is_ok()
}

#[test]
fn two_values_of_8192_cells() {
    assert!(check(12));
}

#[test]
fn two_values_of_16384_cells() {
    assert!(check(13), "panicked");
}
