//! Locals that do not fit the fp offset range must be rejected, not panic.
use std::panic::{AssertUnwindSafe, catch_unwind};

use cairo_lang_sierra::ProgramParser;
use cairo_lang_sierra_to_casm::compiler::{SierraToCasmConfig, compile};
use cairo_lang_sierra_to_casm::metadata::calc_metadata_ap_change_only;
use cairo_lang_sierra_type_size::ProgramRegistryInfo;

fn program(levels: usize, n: usize) -> String {
    program_ex(levels, n, false)
}

fn program_ex(levels: usize, n: usize, small_first: bool) -> String {
    let mut s = String::from("type felt252 = felt252;\n");
    s += "type T0 = Struct<ut@T0, felt252, felt252>;\n";
    for i in 1..=levels {
        s += &format!("type T{i} = Struct<ut@T{i}, T{}, T{}>;\n", i - 1, i - 1);
    }
    let t = format!("T{levels}");
    s += &format!("type U = Uninitialized<{t}>;\n");
    if small_first {
        s += &format!("type V = Uninitialized<T{}>;\n", levels - 1);
    }
    s += &format!("libfunc alloc = alloc_local<{t}>;\nlibfunc fin = finalize_locals;\nlibfunc dr = drop<U>;\n");
    if small_first {
        s += &format!("libfunc alloc_s = alloc_local<T{}>;\nlibfunc dr_s = drop<V>;\n", levels - 1);
    }
    if small_first {
        s += "alloc_s() -> ([100]);\n";
    }
    for i in 0..n {
        s += &format!("alloc() -> ([{i}]);\n");
    }
    s += "fin() -> ();\n";
    if small_first {
        s += "dr_s([100]) -> ();\n";
    }
    for i in 0..n {
        s += &format!("dr([{i}]) -> ();\n");
    }
    s += "return();\n";
    s += "f@0() -> ();\n";
    s
}

fn check(levels: usize, n: usize) -> bool {
    check_ex(levels, n, false)
}

fn check_ex(levels: usize, n: usize, small_first: bool) -> bool {
    let text = program_ex(levels, n, small_first);
    let program = ProgramParser::new().parse(&text).expect("program must parse");
    let info = ProgramRegistryInfo::new(&program).expect("registry");
    let res = catch_unwind(AssertUnwindSafe(|| {
        let metadata = calc_metadata_ap_change_only(&program, &info).map_err(|e| format!("{e:?}"))?;
        compile(
            &program,
            &info,
            &metadata,
            SierraToCasmConfig { gas_usage_check: false, max_bytecode_size: usize::MAX },
        )
        .map(|p| p.instructions.len())
        .map_err(|e| format!("{e:?}"))
    }));
    match &res {
        Ok(r) => eprintln!("levels={levels} n={n}: returned {r:?}"),
        Err(_) => eprintln!("levels={levels} n={n}: PANICKED"),
    }
    res.is_ok()
}

#[test]
fn small_locals() {
    assert!(check(5, 3));
}

#[test]
fn two_locals_of_16384_cells() {
    assert!(check(13, 2), "panicked");
}

#[test]
fn three_locals_of_16384_cells() {
    assert!(check(13, 3), "panicked");
}

#[test]
fn slot_fits_but_last_cell_does_not() {
    // 8192 + 16384 + 16384 cells: the third local starts at 24576 and ends beyond 32767.
    assert!(check_ex(13, 2, true), "panicked");
}
