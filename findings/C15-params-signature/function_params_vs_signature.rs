//! A function's body is typed from `Function::params`, its callers from `Function::signature`. A
//! program in which the two disagree (possible for a `Program` that is deserialized from JSON - the
//! derived `Deserialize` fills the two fields independently - or built in memory) must not be
//! accepted.

use cairo_lang_sierra::ProgramParser;
use cairo_lang_sierra::program::Program;
use cairo_lang_sierra_to_casm::compiler::{CairoProgram, SierraToCasmConfig, compile};
use cairo_lang_sierra_to_casm::metadata::calc_metadata_ap_change_only;
use cairo_lang_sierra_type_size::ProgramRegistryInfo;
use indoc::indoc;

fn compile_program(program: &Program) -> Result<CairoProgram, String> {
    let info = ProgramRegistryInfo::new(program).map_err(|e| e.to_string())?;
    let metadata = calc_metadata_ap_change_only(program, &info).map_err(|e| e.to_string())?;
    compile(
        program,
        &info,
        &metadata,
        SierraToCasmConfig { gas_usage_check: false, max_bytecode_size: usize::MAX },
    )
    .map_err(|e| e.to_string())
}

/// `cast` receives a felt252 from `main` and returns it as an `Array<felt252>`.
const CODE: &str = indoc! {"
    type felt252 = felt252;
    type ArrayFelt252 = Array<felt252>;

    libfunc call_cast = function_call<user@test::cast>;
    libfunc store_temp_array = store_temp<ArrayFelt252>;
    libfunc store_temp_felt252 = store_temp<felt252>;

    store_temp_felt252([1]) -> ([1]);
    call_cast([1]) -> ([2]);
    return([2]);
    store_temp_array([1]) -> ([1]);
    return([1]);

    test::main@0([1]: felt252) -> (ArrayFelt252);
    test::cast@3([1]: ArrayFelt252) -> (ArrayFelt252);
"};

#[test]
fn as_parsed_is_rejected() {
    // `main` passes a felt252 where `cast` takes an array.
    let program = ProgramParser::new().parse(CODE).unwrap();
    let err = compile_program(&program).err().expect("ill-typed call accepted");
    println!("as parsed: {err}");
}

#[test]
fn signature_disagreeing_with_params_is_rejected() {
    let mut program = ProgramParser::new().parse(CODE).unwrap();
    let felt252_ty = program.funcs[0].params[0].ty.clone();
    // The callers' view of `cast` now says it takes a felt252; its body still owns an array.
    program.funcs[1].signature.param_types[0] = felt252_ty;
    assert_ne!(program.funcs[1].params[0].ty, program.funcs[1].signature.param_types[0]);
    match compile_program(&program) {
        Ok(casm) => panic!(
            "A function whose parameters disagree with its signature was accepted; `main` turns \
             a felt252 into an Array<felt252>:\n{casm}"
        ),
        Err(err) => println!("rejected: {err}"),
    }
}
