//! An untrusted contract class must not make `CasmContractClass::from_contract_class` panic.
use std::panic::{AssertUnwindSafe, catch_unwind};

use cairo_lang_sierra::ProgramParser;
use cairo_lang_starknet_classes::allowed_libfuncs::ListSelector;
use cairo_lang_starknet_classes::casm_contract_class::CasmContractClass;
use cairo_lang_starknet_classes::contract_class::{ContractClass, ContractEntryPoints};

const FALLTHROUGH_INTO_OTHER_FUNCTION: &str = r#"
type [0] = felt252;

libfunc [0] = felt252_const<1>;
libfunc [1] = store_temp<[0]>;
libfunc [2] = drop<[0]>;

[0]() -> ([0]);
[1]([0]) -> ([0]);
[2]([0]) -> ();
[0]() -> ([1]);
[1]([1]) -> ([1]);
return([1]);

[0]@0() -> ([0]);
[1]@3() -> ([0]);
"#;

#[test]
fn from_contract_class_fallthrough_into_other_function() {
    let program = ProgramParser::new().parse(FALLTHROUGH_INTO_OTHER_FUNCTION).unwrap();
    // Serialized with the current Sierra version, hence the linear solvers are used.
    let contract_class =
        ContractClass::new(&program, ContractEntryPoints::default(), None, Default::default())
            .expect("serialization to felts must succeed");
    // The same path as `starknet-sierra-compile`: decode from felts, check the audited libfuncs
    // list, compile.
    let extracted = contract_class.extract_sierra_program(false).expect("must decode");
    extracted
        .validate_version_compatible(ListSelector::DefaultList)
        .expect("only audited libfuncs are used");
    let res = catch_unwind(AssertUnwindSafe(|| {
        CasmContractClass::from_contract_class(contract_class, extracted, false, usize::MAX)
            .map(|_| ())
    }));
    match &res {
        Ok(r) => eprintln!("returned: {r:?}"),
        Err(_) => eprintln!("PANICKED"),
    }
    assert!(res.is_ok(), "from_contract_class panicked");
}
