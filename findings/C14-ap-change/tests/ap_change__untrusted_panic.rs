//! Untrusted Sierra programs must not make the ap-change computation panic.
use std::panic::{AssertUnwindSafe, catch_unwind};

use cairo_lang_sierra::ProgramParser;
use cairo_lang_sierra::extensions::core::{CoreLibfunc, CoreType};
use cairo_lang_sierra::program_registry::ProgramRegistry;
use cairo_lang_sierra_ap_change::compute::calc_ap_changes;
use cairo_lang_sierra_type_size::ProgramRegistryInfo;

/// Runs the linear ap-change computation on `sierra` and returns whether it returned (Ok or Err)
/// rather than panicked. The registry construction must succeed.
fn returns_without_panic(sierra: &str) -> bool {
    let program = ProgramParser::new().parse(sierra).expect("program must parse");
    ProgramRegistry::<CoreType, CoreLibfunc>::new(&program).expect("registry must validate");
    let info = ProgramRegistryInfo::new(&program).expect("registry info must validate");
    let res = catch_unwind(AssertUnwindSafe(|| calc_ap_changes(&program, &info, |_, _| 0)));
    match &res {
        Ok(r) => eprintln!("returned: {r:?}"),
        Err(_) => eprintln!("PANICKED"),
    }
    res.is_ok()
}

/// Function `A` falls through into the entry point of function `B`.
/// The `return` is tracked from the base `FunctionStart(B)` (ap change 1), while the statements of
/// `A` before it have a larger known ap change.
const FALLTHROUGH_INTO_OTHER_FUNCTION: &str = r#"
type felt252 = felt252;

libfunc felt252_const<1> = felt252_const<1>;
libfunc store_temp<felt252> = store_temp<felt252>;
libfunc drop<felt252> = drop<felt252>;

felt252_const<1>() -> ([0]);
store_temp<felt252>([0]) -> ([0]);
drop<felt252>([0]) -> ();
felt252_const<1>() -> ([1]);
store_temp<felt252>([1]) -> ([1]);
return([1]);

A@0() -> (felt252);
B@3() -> (felt252);
"#;

/// Same, using an explicit `jump` from `A` into the body of `B`.
const JUMP_INTO_OTHER_FUNCTION: &str = r#"
type felt252 = felt252;

libfunc felt252_const<1> = felt252_const<1>;
libfunc store_temp<felt252> = store_temp<felt252>;
libfunc drop<felt252> = drop<felt252>;
libfunc jump = jump;

felt252_const<1>() -> ([1]);
store_temp<felt252>([1]) -> ([1]);
return([1]);
felt252_const<1>() -> ([0]);
store_temp<felt252>([0]) -> ([0]);
drop<felt252>([0]) -> ();
jump() { 0() };

B@0() -> (felt252);
A@3() -> (felt252);
"#;

/// A single function whose entry point is inside a loop: statement 0 is reached only through the
/// backward `jump`, after it was already skipped by the forward tracking pass, so the tracked ap
/// change of the entry point (0) does not account for the `store_temp` preceding it.
const ENTRY_POINT_INSIDE_LOOP: &str = r#"
type felt252 = felt252;
type NonZero<felt252> = NonZero<felt252>;

libfunc store_temp<felt252> = store_temp<felt252>;
libfunc felt252_is_zero = felt252_is_zero;
libfunc branch_align = branch_align;
libfunc jump = jump;
libfunc drop<NonZero<felt252>> = drop<NonZero<felt252>>;
libfunc disable_ap_tracking = disable_ap_tracking;

store_temp<felt252>([0]) -> ([0]);
felt252_is_zero([0]) { fallthrough() 4([1]) };
branch_align() -> ();
jump() { 0() };
branch_align() -> ();
drop<NonZero<felt252>>([1]) -> ();
disable_ap_tracking() -> ();
return();

F@1([0]: felt252) -> ();
"#;

#[test]
fn entry_point_inside_loop() {
    assert!(returns_without_panic(ENTRY_POINT_INSIDE_LOOP));
}

#[test]
fn fallthrough_into_other_function() {
    assert!(returns_without_panic(FALLTHROUGH_INTO_OTHER_FUNCTION));
}

#[test]
fn jump_into_other_function() {
    assert!(returns_without_panic(JUMP_INTO_OTHER_FUNCTION));
}

/// A chain of `n` functions where `f{i}` calls `f{i+1}` twice: the known ap change of `f0` is about
/// `2^n`, for a program of size linear in `n`.
fn doubling_call_chain(n: usize) -> String {
    let mut libfuncs = String::new();
    let mut statements = String::new();
    let mut funcs = String::new();
    let mut idx = 0;
    for i in 0..n {
        funcs.push_str(&format!("f{i}@{idx}() -> ();\n"));
        if i + 1 < n {
            libfuncs.push_str(&format!(
                "libfunc function_call<user@f{0}> = function_call<user@f{0}>;\n",
                i + 1
            ));
            statements.push_str(&format!("function_call<user@f{}>() -> ();\n", i + 1));
            statements.push_str(&format!("function_call<user@f{}>() -> ();\n", i + 1));
            idx += 2;
        }
        statements.push_str("return();\n");
        idx += 1;
    }
    format!("{libfuncs}\n{statements}\n{funcs}")
}

#[test]
fn doubling_call_chain_small() {
    assert!(returns_without_panic(&doubling_call_chain(10)));
}

#[test]
fn doubling_call_chain_overflow() {
    assert!(returns_without_panic(&doubling_call_chain(70)));
}
