//! Untrusted Sierra programs must not make the metadata computation panic.
use std::panic::{AssertUnwindSafe, catch_unwind};

use cairo_lang_sierra::ProgramParser;
use cairo_lang_sierra_to_casm::metadata::{
    MetadataComputationConfig, calc_metadata, calc_metadata_ap_change_only,
};
use cairo_lang_sierra_type_size::ProgramRegistryInfo;

fn check(sierra: &str) -> (bool, bool, bool) {
    let program = ProgramParser::new().parse(sierra).expect("program must parse");
    let info = ProgramRegistryInfo::new(&program).expect("registry info must validate");
    let a = catch_unwind(AssertUnwindSafe(|| calc_metadata_ap_change_only(&program, &info).err()));
    eprintln!("calc_metadata_ap_change_only: {a:?}");
    let b = catch_unwind(AssertUnwindSafe(|| {
        calc_metadata(&program, &info, MetadataComputationConfig::default()).err()
    }));
    eprintln!("calc_metadata(default = linear solvers): {b:?}");
    let c = catch_unwind(AssertUnwindSafe(|| {
        calc_metadata(
            &program,
            &info,
            MetadataComputationConfig {
                linear_gas_solver: false,
                linear_ap_change_solver: false,
                skip_non_linear_solver_comparisons: true,
                ..Default::default()
            },
        )
        .err()
    }));
    eprintln!("calc_metadata(equation solvers): {c:?}");
    (a.is_ok(), b.is_ok(), c.is_ok())
}

const FALLTHROUGH_INTO_OTHER_FUNCTION: &str = r#"
type felt252 = felt252;

libfunc felt252_const<1> = felt252_const<1>;
libfunc store_temp<felt252> = store_temp<felt252>;
libfunc drop<felt252> = drop<felt252>;

felt252_const<1>() -> ([0]);
store_temp<felt252>([0]) -> ([0]);
drop<felt252>([0]) -> ();
felt252_const<1>() -> ([1]);
store_temp<felt252>([1]) -> ([1]);
return([1]);

A@0() -> (felt252);
B@3() -> (felt252);
"#;

#[test]
fn fallthrough_into_other_function_ap_change_only() {
    assert!(check(FALLTHROUGH_INTO_OTHER_FUNCTION).0);
}

#[test]
fn fallthrough_into_other_function_calc_metadata_linear() {
    assert!(check(FALLTHROUGH_INTO_OTHER_FUNCTION).1);
}

#[test]
fn fallthrough_into_other_function_calc_metadata_eq_solver() {
    assert!(check(FALLTHROUGH_INTO_OTHER_FUNCTION).2);
}

/// A chain of `n` functions where `f{i}` calls `f{i+1}` twice: the known ap change of `f0` is about
/// `2^n`, for a program of size linear in `n`.
fn doubling_call_chain(n: usize) -> String {
    let mut libfuncs = String::new();
    let mut statements = String::new();
    let mut funcs = String::new();
    let mut idx = 0;
    for i in 0..n {
        funcs.push_str(&format!("f{i}@{idx}() -> ();\n"));
        if i + 1 < n {
            libfuncs.push_str(&format!(
                "libfunc function_call<user@f{0}> = function_call<user@f{0}>;\n",
                i + 1
            ));
            statements.push_str(&format!("function_call<user@f{}>() -> ();\n", i + 1));
            statements.push_str(&format!("function_call<user@f{}>() -> ();\n", i + 1));
            idx += 2;
        }
        statements.push_str("return();\n");
        idx += 1;
    }
    format!("{libfuncs}\n{statements}\n{funcs}")
}

#[test]
fn doubling_call_chain_ap_change_only() {
    assert!(check(&doubling_call_chain(70)).0);
}

#[test]
fn doubling_call_chain_calc_metadata_linear() {
    assert!(check(&doubling_call_chain(70)).1);
}
