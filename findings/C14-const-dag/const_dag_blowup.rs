//! Triage: exponential work in `extract_const_value` for a const of a
//! zero-sized struct DAG.
use std::time::Instant;

use cairo_lang_sierra::ProgramParser;
use cairo_lang_starknet_classes::casm_contract_class::CasmContractClass;
use cairo_lang_starknet_classes::contract_class::{ContractClass, ContractEntryPoints};

fn program_text(depth: usize) -> String {
    let mut s = String::new();
    s.push_str("type [0] = Struct<ut@U>;\n");
    s.push_str("type [1] = Const<[0]>;\n");
    for k in 1..=depth {
        let st = 2 * k;
        let ct = 2 * k + 1;
        let pst = st - 2;
        let pct = ct - 2;
        s.push_str(&format!("type [{st}] = Struct<ut@S{k}, [{pst}], [{pst}]>;\n"));
        s.push_str(&format!("type [{ct}] = Const<[{st}], [{pct}], [{pct}]>;\n"));
    }
    let top_struct = 2 * depth;
    let top_const = 2 * depth + 1;
    let box_ty = 2 * depth + 2;
    s.push_str(&format!("type [{box_ty}] = Box<[{top_struct}]>;\n"));
    s.push_str(&format!("libfunc [0] = const_as_box<[{top_const}], 0>;\n"));
    s.push_str("return();\n");
    s.push_str("[0]@0() -> ();\n");
    s
}

#[test]
fn probe() {
    for depth in [10usize, 16, 20, 22] {
        let program = ProgramParser::new().parse(&program_text(depth)).unwrap();
        let contract_class =
            ContractClass::new(&program, ContractEntryPoints::default(), None, Default::default())
                .unwrap();
        let n_felts = contract_class.sierra_program.len();
        let extracted = contract_class.extract_sierra_program(false).unwrap();
        let start = Instant::now();
        let result =
            CasmContractClass::from_contract_class(contract_class, extracted, false, 1_000_000);
        println!(
            "depth {depth}: {n_felts} felts, ok={:?} err={:?}, took {:?}",
            result.is_ok(),
            result.as_ref().err().map(|e| e.to_string()),
            start.elapsed()
        );
    }
}
