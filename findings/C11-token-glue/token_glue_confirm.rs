//! Triage: does the formatter glue two tokens into another token inside a macro token tree?
use cairo_lang_formatter::{FormatterConfig, get_formatted_file};
use cairo_lang_parser::utils::SimpleParserDatabase;

fn format(code: &str) -> Result<String, String> {
    let db = SimpleParserDatabase::default();
    let root = db.parse_virtual(code).map_err(|_| format!("does not parse: {code}"))?;
    Ok(get_formatted_file(&db, &root, FormatterConfig::default()))
}

/// The code tokens of `code` as the lexer sees them (kind + text), ignoring trivia.
fn tokens(code: &str) -> Vec<String> {
    use cairo_lang_parser::lexer::Lexer;
    use cairo_lang_syntax::node::kind::SyntaxKind;
    let db = SimpleParserDatabase::default();
    let mut lexer = Lexer::new(code);
    let mut out = vec![];
    loop {
        let t = lexer.match_terminal(&db);
        if t.kind == SyntaxKind::TerminalEndOfFile {
            break;
        }
        out.push(format!("{:?}:{}", t.kind, t.text(&db)));
    }
    out
}

#[test]
fn glue() {
    let mut bad = 0;
    for code in [
        "fn f() {\n    m!(a . . b);\n}\n",
        "fn f() {\n    m!(a . .. b);\n}\n",
        "fn f() {\n    m!(a . ..= b);\n}\n",
        "fn f() {\n    m!(a ! = b);\n}\n",
        "fn f() {\n    m!(a ! == b);\n}\n",
        "fn f() {\n    m!(a ! => b);\n}\n",
        "fn f() {\n    m!(a : :: b);\n}\n",
        "fn f() {\n    m!(a : : b);\n}\n",
        "fn f() {\n    m!(a @ @ b);\n}\n",
        "fn f() {\n    m!(a . , b);\n}\n",
        "fn f() {\n    m!(( . ));\n}\n",
    ] {
        match format(code) {
            Err(e) => println!("SKIP {e}"),
            Ok(out) => {
                let (ti, to) = (tokens(code), tokens(&out));
                let same = ti == to;
                if !same {
                    bad += 1;
                }
                println!("{} {:?} -> {:?}", if same { "same " } else { "DIFF " }, code, out);
                if !same {
                    println!("      reparse of the output: {:?}", format(&out).map(|o| o == out));
                }
            }
        }
    }
    assert_eq!(bad, 0, "{bad} inputs had their tokens changed");
}
