//! Checks that the syntax tree is lossless: the leaves reproduce the source byte for byte, in
//! order, every node's span is the concatenation of its children's spans, and the root spans the
//! whole file.

use cairo_lang_filesystem::span::{TextOffset, TextWidth};
use cairo_lang_parser::utils::SimpleParserDatabase;
use cairo_lang_syntax::node::SyntaxNode;
use salsa::Database;

/// Concatenates the text of all the tokens (including trivia tokens) under `node` into `out`,
/// while checking that every node's span is the concatenation of its children's spans and that
/// the text of every token is the text of the source at the span of the token.
fn collect<'a>(db: &'a dyn Database, node: SyntaxNode<'a>, source: &str, out: &mut String) {
    if let Some(text) = node.text(db) {
        let text = text.long(db).as_str();
        assert_eq!(TextWidth::from_str(text), node.width(db), "token width != text width");
        assert_eq!(
            text,
            node.span(db).take(source),
            "text of {:?} token at {:?} differs from the source text at its span",
            node.kind(db),
            node.span(db),
        );
        out.push_str(text);
        return;
    }
    let mut offset = node.offset(db);
    for child in node.get_children(db) {
        assert_eq!(child.offset(db), offset, "children spans are not consecutive");
        offset = offset.add_width(child.width(db));
        collect(db, *child, source, out);
    }
    assert_eq!(offset, node.span(db).end, "node width != sum of children widths");
}

fn check_lossless(source: &str) {
    let db = SimpleParserDatabase::default();
    let (root, _diagnostics) = db.parse_virtual_with_diagnostics(source);
    assert_eq!(root.offset(&db), TextOffset::START);
    assert_eq!(root.width(&db), TextWidth::from_str(source), "root does not span the file");
    let mut out = String::new();
    collect(&db, root, source, &mut out);
    assert_eq!(out, source, "leaves do not reproduce the source");
}

#[test]
fn module_attrs_after_attribute_list() {
    check_lossless("#[a::fn 5");
}

#[test]
fn module_attrs_after_parse_path() {
    check_lossless("#[a] b::fn x;");
}

#[test]
fn module_visibility_after_parse_path() {
    check_lossless("pub b::fn x;");
}

#[test]
fn module_path_after_parse_path() {
    check_lossless("b::fn x;");
}

#[test]
fn module_path_underscore() {
    check_lossless("b::_ x;");
}

#[test]
fn statement_attrs_after_attribute_list() {
    check_lossless("fn f() { #[a::fn ; }");
}

#[test]
fn trait_attrs_after_attribute_list() {
    check_lossless("trait T { #[a::fn 5 }");
}

#[test]
fn impl_attrs_after_attribute_list() {
    check_lossless("impl I of T { #[a::fn 5 }");
}

#[test]
fn control_module_attrs() {
    check_lossless("#[a] 5");
}

#[test]
fn control_module_path() {
    check_lossless("b::c x;");
}

#[test]
fn control_trait_attrs() {
    check_lossless("trait T { #[a] 5 }");
}

#[test]
fn control_statement_attrs() {
    check_lossless("fn f() { #[a] ; }");
}

