//! Compiling a program against a dependency supplied as a crate cache blob must produce exactly
//! the same Sierra as compiling the very same dependency from its sources.
//!
//! The project used here has two crates: `mylib` (the crate that gets cached) and `app` (the
//! dependent program). `app` is compiled twice - once with `mylib` analysed from source and once
//! with `mylib` loaded from the blob produced by `generate_crate_cache` - and the two Sierra
//! programs are compared textually.

use std::fs;
use std::path::{Path, PathBuf};

use cairo_lang_compiler::db::RootDatabase;
use cairo_lang_compiler::diagnostics::DiagnosticsReporter;
use cairo_lang_compiler::project::setup_project;
use cairo_lang_compiler::{CompilerConfig, compile_prepared_db_program};
use cairo_lang_filesystem::db::{files_group_input, set_crate_configs_input};
use cairo_lang_filesystem::ids::{BlobLongId, CrateInput};
use cairo_lang_lowering::cache::generate_crate_cache;
use cairo_lang_lowering::optimizations::config::Optimizations;
use cairo_lang_lowering::utils::InliningStrategy;

const PROJECT_TOML: &str = r#"
[crate_roots]
app = "app"
mylib = "mylib"

[config.global]
edition = "2024_07"

[config.global.dependencies]
mylib = { discriminator = "mylib" }
"#;

/// Writes a two-crate project (`mylib` + `app`) into a fresh temporary directory.
fn write_project(test_name: &str, lib_code: &str, app_code: &str) -> PathBuf {
    let dir = std::env::temp_dir()
        .join(format!("cairo_crate_cache_equivalence_{}_{test_name}", std::process::id()));
    let _ = fs::remove_dir_all(&dir);
    fs::create_dir_all(dir.join("app")).unwrap();
    fs::create_dir_all(dir.join("mylib")).unwrap();
    fs::write(dir.join("cairo_project.toml"), PROJECT_TOML).unwrap();
    fs::write(dir.join("mylib").join("lib.cairo"), lib_code).unwrap();
    fs::write(dir.join("app").join("lib.cairo"), app_code).unwrap();
    dir
}

/// Builds a fresh database for the project, with the default optimizations.
fn build_db(project: &Path, inlining: InliningStrategy) -> (RootDatabase, CrateInput, CrateInput) {
    let mut db = RootDatabase::builder()
        .with_optimizations(Optimizations::enabled_with_default_movable_functions(inlining))
        .detect_corelib()
        .build()
        .unwrap();
    let inputs = setup_project(&mut db, project).unwrap();
    let find = |wanted: &str| {
        inputs
            .iter()
            .find(|input| matches!(input, CrateInput::Real { name, .. } if name == wanted))
            .unwrap_or_else(|| panic!("crate `{wanted}` not found in the project"))
            .clone()
    };
    let (app, lib) = (find("app"), find("mylib"));
    (db, app, lib)
}


/// Compiles `app`, returning the diagnostics text (all crates of interest) and the Sierra (if any).
fn compile_app(db: &RootDatabase, app: CrateInput, lib: CrateInput) -> (String, Option<String>) {
    let mut diags = String::new();
    let res = {
        let reporter = DiagnosticsReporter::write_to_string(&mut diags).with_crates(&[app.clone(), lib]).allow_warnings();
        let crate_ids = CrateInput::into_crate_ids(db, [app]);
        compile_prepared_db_program(
            db,
            crate_ids,
            CompilerConfig { diagnostics_reporter: reporter, replace_ids: true, ..Default::default() },
        )
        .ok()
        .map(|p| p.to_string())
    };
    (diags, res)
}

fn both(test_name: &str, lib_code: &str, app_code: &str) -> ((String, Option<String>), (String, Option<String>)) {
    let inlining = InliningStrategy::Default;
    let project = write_project(test_name, lib_code, app_code);
    let blob = {
        let (db, _app, lib) = build_db(&project, inlining);
        let [lib_id] = CrateInput::into_crate_ids(&db, [lib])[..] else { unreachable!() };
        generate_crate_cache(&db, lib_id).unwrap()
    };
    let from_source = {
        let (db, app, lib) = build_db(&project, inlining);
        compile_app(&db, app, lib)
    };
    let from_cache = {
        let (mut db, app, lib) = build_db(&project, inlining);
        let mut crate_configs = files_group_input(&db).crate_configs(&db).clone().unwrap();
        crate_configs.get_mut(&lib).unwrap().cache_file = Some(BlobLongId::Virtual(blob));
        set_crate_configs_input(&mut db, Some(crate_configs));
        compile_app(&db, app, lib)
    };
    let _ = fs::remove_dir_all(&project);
    (from_source, from_cache)
}

const APP: &str = r#"
fn main(a: felt252) -> felt252 {
    mylib::f(a)
}
"#;

fn report(name: &str, lib: &str) -> bool {
    let ((ds, ss), (dc, sc)) = both(name, lib, APP);
    println!("==== {name}\n-- diagnostics from source:\n{ds}\n-- diagnostics from cache:\n{dc}\n-- sierra equal: {}", ss == sc);
    ds == dc && ss == sc
}

#[test]
fn library_warnings() {
    let mut ok = true;
    ok &= report("unreachable_code", r#"
pub fn f(a: felt252) -> felt252 {
    return a + 1;
    a + 2
}
"#);
    ok &= report("unreachable_arm", r#"
pub fn f(a: felt252) -> felt252 {
    match a {
        _ => 1,
        0 => 2,
    }
}
"#);
    ok &= report("unused_variable", r#"
pub fn f(a: felt252) -> felt252 {
    let b = a + 1;
    a
}
"#);
    ok &= report("unused_import", r#"
use core::array::ArrayTrait;
pub fn f(a: felt252) -> felt252 {
    a
}
"#);
    ok &= report("clean_control", r#"
pub fn f(a: felt252) -> felt252 {
    a + 1
}
"#);
    assert!(ok, "diagnostics or Sierra differ between source and cache");
}
