//! Untrusted Sierra: malformed generic arguments of `dummy_function_call` must be rejected, not panic.
use cairo_lang_sierra::ProgramParser;
use cairo_lang_sierra::extensions::core::{CoreLibfunc, CoreType};
use cairo_lang_sierra::program_registry::ProgramRegistry;

fn registry_is_err(src: &str) {
    let program = ProgramParser::new().parse(src).unwrap();
    assert!(ProgramRegistry::<CoreType, CoreLibfunc>::new(&program).is_err());
}

#[test]
fn no_generic_args() {
    registry_is_err("libfunc d = dummy_function_call<>;\nreturn();\nf@0() -> ();\n");
}

#[test]
fn value_where_a_type_is_expected() {
    registry_is_err(
        "type felt252 = felt252;\nlibfunc d = dummy_function_call<user@f, 0, 1, 5, 0>;\nreturn();\nf@0() -> ();\n",
    );
}

#[test]
fn undeclared_return_type() {
    registry_is_err(
        "libfunc d = dummy_function_call<user@f, 0, 0, 1, Undeclared>;\nreturn();\nf@0() -> ();\n",
    );
}
