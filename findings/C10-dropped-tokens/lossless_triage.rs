//! Checks that the syntax tree is lossless: the leaves reproduce the source byte for byte, in
//! order, every node's span is the concatenation of its children's spans, and the root spans the
//! whole file.

use cairo_lang_filesystem::span::{TextOffset, TextWidth};
use cairo_lang_parser::utils::SimpleParserDatabase;
use cairo_lang_syntax::node::SyntaxNode;
use salsa::Database;

/// Concatenates the text of all the tokens (including trivia tokens) under `node` into `out`,
/// while checking that every node's span is the concatenation of its children's spans and that
/// the text of every token is the text of the source at the span of the token.
fn collect<'a>(db: &'a dyn Database, node: SyntaxNode<'a>, source: &str, out: &mut String) {
    if let Some(text) = node.text(db) {
        let text = text.long(db).as_str();
        assert_eq!(TextWidth::from_str(text), node.width(db), "token width != text width");
        assert_eq!(
            text,
            node.span(db).take(source),
            "text of {:?} token at {:?} differs from the source text at its span",
            node.kind(db),
            node.span(db),
        );
        out.push_str(text);
        return;
    }
    let mut offset = node.offset(db);
    for child in node.get_children(db) {
        assert_eq!(child.offset(db), offset, "children spans are not consecutive");
        offset = offset.add_width(child.width(db));
        collect(db, *child, source, out);
    }
    assert_eq!(offset, node.span(db).end, "node width != sum of children widths");
}

fn check_lossless(source: &str) {
    let db = SimpleParserDatabase::default();
    let (root, _diagnostics) = db.parse_virtual_with_diagnostics(source);
    assert_eq!(root.offset(&db), TextOffset::START);
    assert_eq!(root.width(&db), TextWidth::from_str(source), "root does not span the file");
    let mut out = String::new();
    collect(&db, root, source, &mut out);
    assert_eq!(out, source, "leaves do not reproduce the source");
}

#[test]
fn module_item_visibility_macro() {
    check_lossless("pub foo!(1);");
}

#[test]
fn module_item_visibility_macro_nobang() {
    check_lossless("pub foo(1);");
}

#[test]
fn member_visibility_only() {
    check_lossless("struct A { pub }");
}

#[test]
fn member_visibility_then_number() {
    check_lossless("struct A { pub(crate) 5, .. }");
}

#[test]
fn impl_item_visibility_macro() {
    check_lossless("impl X of Y { pub foo!(1); }");
}

#[test]
fn impl_item_attr_macro() {
    check_lossless("impl X of Y { #[a] foo!(1); }");
}

#[test]
fn impl_item_attr_number() {
    check_lossless("impl X of Y { #[a] 5 }");
}

#[test]
fn impl_item_pub_number() {
    check_lossless("impl X of Y { pub 5 }");
}

#[test]
fn statement_attr_only() {
    check_lossless("fn f() { #[a] }");
}

#[test]
fn statement_attr_semicolon() {
    check_lossless("fn f() { #[a] ; }");
}

#[test]
fn statement_attr_rbrace_number() {
    check_lossless("fn f() { #[a] ) }");
}

#[test]
fn trait_item_attr_only() {
    check_lossless("trait T { #[a] }");
}

#[test]
fn trait_item_attr_number() {
    check_lossless("trait T { #[a] 5 }");
}

#[test]
fn path_turbofish() {
    check_lossless("fn f() { a::<u8>::b; }");
}

#[test]
fn type_path_turbofish() {
    check_lossless("fn f() -> a::<u8> {}");
}

#[test]
fn dollar_arg_name() {
    check_lossless("fn g() { f($a: 1) }");
}

#[test]
fn dollar_generic_param() {
    check_lossless("struct A<$T: u8> {}");
}

#[test]
fn module_attr_then_garbage() {
    check_lossless("#[a] 5");
}

#[test]
fn module_pub_then_garbage() {
    check_lossless("pub 5");
}

