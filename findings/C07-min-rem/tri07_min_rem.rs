//! Compile-time evaluation of signed `/` and `%` must agree with run-time evaluation.
//!
//! For every operand pair `(a, b)` of a boundary grid over `i8` and `i64` the test compiles
//!   * `const Q: T = a / b; const R: T = a % b;`      - evaluated by the semantic const evaluator,
//!   * `fn folded() -> (T, T) { (a / b, a % b) }`      - literals, folded by the lowering const folder,
//!   * `fn rt(a: T, b: T) -> (T, T) { (a / b, a % b) }` - run with `a`, `b` passed as opaque arguments,
//! runs all three on the VM and requires the three results to be identical.
//!
//! Pairs that panic at run time (`b == 0`, `MIN / -1`) must be rejected at compile time.

use cairo_lang_compiler::db::RootDatabase;
use cairo_lang_compiler::diagnostics::DiagnosticsReporter;
use cairo_lang_runner::{Arg, RunResultValue, SierraCasmRunner};
use cairo_lang_semantic::test_utils::setup_test_module;
use cairo_lang_sierra_generator::db::SierraGenGroup;
use cairo_lang_sierra_generator::program_generator::SierraProgramWithDebug;
use cairo_lang_sierra_generator::replace_ids::replace_sierra_ids_in_program;
use cairo_lang_utils::ordered_hash_map::OrderedHashMap;
use starknet_types_core::felt::Felt as Felt252;

/// Compiles `code` and returns a runner for it.
fn compile(db: &RootDatabase, code: &str) -> SierraCasmRunner {
    let test_module = setup_test_module(db, code).unwrap();
    let crate_input = test_module.crate_id.long(db).clone().into_crate_input(db);
    DiagnosticsReporter::stderr().with_crates(&[crate_input]).allow_warnings().ensure(db).unwrap();
    let SierraProgramWithDebug { program, .. } =
        db.get_sierra_program(vec![test_module.crate_id]).expect("`get_sierra_program` failed.");
    let program = replace_sierra_ids_in_program(db, program);
    SierraCasmRunner::new(program, Some(Default::default()), OrderedHashMap::default(), None)
        .unwrap()
}

/// Reads a felt252 holding a (possibly negative) small integer.
fn signed(value: &Felt252) -> i128 {
    let value = value.to_bigint();
    let prime = Felt252::MAX.to_bigint() + 1;
    i128::try_from(if value > &prime / 2 { value - prime } else { value }).unwrap()
}

/// Runs the function whose name ends with `name`, returning its return values, or the panic data.
fn run(runner: &SierraCasmRunner, name: &str, args: &[i128]) -> Result<Vec<i128>, Vec<Felt252>> {
    let func = runner.find_function(name).unwrap();
    let args = args.iter().map(|v| Arg::Value(Felt252::from(*v))).collect();
    let result = runner
        .run_function_with_starknet_context(
            func,
            args,
            Some(u32::MAX as usize),
            Default::default(),
        )
        .unwrap();
    match result.value {
        RunResultValue::Success(values) => Ok(values.iter().map(signed).collect()),
        RunResultValue::Panic(values) => Err(values),
    }
}


/// `MIN % -1`: at run time `%` is the remainder of `DivRem::div_rem`, which panics because the quotient
/// overflows; at compile time the expression must not be given a value.
#[test]
fn min_rem_minus_one_compile_time_vs_run_time() {
    let db = RootDatabase::builder().detect_corelib().build().unwrap();
    let code = "
        #[inline(never)]
        fn rt(a: i8, b: i8) -> i8 { a % b }
        const C: i8 = -128_i8 % -1_i8;
        fn ct() -> i8 { C }
        fn folded() -> i8 { -128_i8 % -1_i8 }
    ";
    let (_, diagnostics) = setup_test_module(&db, code).split();
    if diagnostics.contains("does not fit within the range") {
        // The const item is rejected at compile time: consistent with the run-time panic.
        return;
    }
    let runner = compile(&db, code);
    let run_time = run(&runner, "::rt", &[-128, -1]);
    let compile_time = run(&runner, "::ct", &[]);
    let folded = run(&runner, "::folded", &[]);
    assert!(folded.is_err(), "const folding gave `-128_i8 % -1_i8` the value {folded:?}");
    assert!(run_time.is_err(), "run-time `-128_i8 % -1_i8` did not panic: {run_time:?}");
    assert!(
        compile_time.is_err(),
        "`const C: i8 = -128_i8 % -1_i8;` was accepted and evaluates to {compile_time:?}, but the same \
         expression panics at run time ({run_time:?})"
    );
}
