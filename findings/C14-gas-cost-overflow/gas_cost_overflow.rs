//! The gas computation must not panic on a function whose cost does not fit an i32.
use std::panic::{AssertUnwindSafe, catch_unwind};

use cairo_lang_sierra::ProgramParser;
use cairo_lang_sierra_to_casm::metadata::{MetadataComputationConfig, calc_metadata};
use cairo_lang_sierra_type_size::ProgramRegistryInfo;

fn program(levels: usize, n: usize) -> String {
    let mut s = String::from("type felt252 = felt252;\n");
    s += "type T0 = Struct<ut@T0, felt252, felt252>;\n";
    for i in 1..=levels {
        s += &format!("type T{i} = Struct<ut@T{i}, T{}, T{}>;\n", i - 1, i - 1);
    }
    let t = format!("T{levels}");
    s += &format!("libfunc st = store_temp<{t}>;\nlibfunc dr = drop<{t}>;\n");
    for _ in 0..n {
        s += "st([0]) -> ([0]);\n";
    }
    s += "dr([0]) -> ();\nreturn();\n";
    s += &format!("foo@0([0]: {t}) -> ();\n");
    s
}

fn check(levels: usize, n: usize) -> bool {
    let text = program(levels, n);
    let program = ProgramParser::new().parse(&text).expect("program must parse");
    let info = ProgramRegistryInfo::new(&program).expect("registry");
    let res = catch_unwind(AssertUnwindSafe(|| {
        calc_metadata(&program, &info, MetadataComputationConfig::default())
            .map(|m| m.gas_info.function_costs.len())
            .map_err(|e| format!("{e:?}"))
    }));
    match &res {
        Ok(r) => eprintln!("levels={levels} n={n}: returned {r:?}"),
        Err(_) => eprintln!("levels={levels} n={n}: PANICKED"),
    }
    res.is_ok()
}

#[test]
fn small() {
    assert!(check(13, 10));
}

#[test]
fn cost_above_i32() {
    // 140000 * 16384 steps > i32::MAX.
    assert!(check(13, 140_000), "panicked");
}
