//! Checks that every bytecode word of a compiled class is a canonical field element (that is, lies
//! in `[0, PRIME)`), also when the Sierra program spells a `felt252` constant using a
//! non-canonical representative of its residue class.
//!
//! Sierra does not restrict the generic argument of `felt252_const<V>`: `V` and `V + PRIME` denote
//! the same `felt252`, so the two spellings must compile to the very same CASM class (and, in
//! particular, to the same compiled class hash).

use std::fs::File;
use std::io::BufReader;
use std::path::PathBuf;

use cairo_lang_sierra::program::GenericArg;
use cairo_lang_starknet_classes::casm_contract_class::CasmContractClass;
use cairo_lang_starknet_classes::contract_class::ContractClass;
use num_bigint::BigInt;
use num_traits::Signed;
use starknet_types_core::felt::Felt as Felt252;

/// Loads the checked-in contract class of the example contract `name`.
fn load_example_contract_class(name: &str) -> ContractClass {
    let mut path = PathBuf::from(env!("CARGO_MANIFEST_DIR"));
    path.pop();
    path.extend(["cairo-lang-starknet", "test_data", &format!("{name}.contract_class.json")]);
    serde_json::from_reader(BufReader::new(File::open(path).unwrap())).unwrap()
}

/// Compiles the example contract `name`, after adding `shift` to the value of all its
/// `felt252_const` libfuncs. Returns the compiled class and the number of shifted constants.
fn compile_with_shifted_felt252_consts(
    name: &str,
    shift: &BigInt,
    add_pythonic_hints: bool,
) -> (CasmContractClass, usize) {
    let contract_class = load_example_contract_class(name);
    let mut extracted = contract_class.extract_sierra_program(false).unwrap();
    let mut shifted = 0;
    for declaration in &mut extracted.program.libfunc_declarations {
        if declaration.long_id.generic_id.0 != "felt252_const" {
            continue;
        }
        let [GenericArg::Value(value)] = &mut declaration.long_id.generic_args[..] else {
            panic!("Unexpected `felt252_const` generic arguments.");
        };
        if !value.is_negative() {
            *value += shift;
            shifted += 1;
        }
    }
    let casm = CasmContractClass::from_contract_class(
        contract_class,
        extracted,
        add_pythonic_hints,
        usize::MAX,
    )
    .unwrap();
    (casm, shifted)
}

fn check_contract(name: &str, add_pythonic_hints: bool) {
    let prime = Felt252::prime();
    let (expected, _) =
        compile_with_shifted_felt252_consts(name, &BigInt::from(0), add_pythonic_hints);
    let (actual, shifted) =
        compile_with_shifted_felt252_consts(name, &BigInt::from(prime.clone()), add_pythonic_hints);
    assert!(shifted > 0, "The example contract `{name}` has no `felt252_const` to shift.");

    for (offset, word) in actual.bytecode.iter().enumerate() {
        assert!(
            word.value < prime,
            "`{name}`: bytecode word at offset {offset} is not a canonical field element: {:#x}",
            word.value
        );
    }
    assert_eq!(actual.bytecode, expected.bytecode, "`{name}`: bytecode mismatch.");
    assert_eq!(actual, expected, "`{name}`: compiled class mismatch.");
    assert_eq!(actual.compiled_class_hash(), expected.compiled_class_hash());
    assert_eq!(actual.legacy_compiled_class_hash(), expected.legacy_compiled_class_hash());

    // The hashes must also survive a JSON round trip of the compiled class.
    let round_tripped: CasmContractClass =
        serde_json::from_str(&serde_json::to_string(&actual).unwrap()).unwrap();
    assert_eq!(round_tripped, actual);
    assert_eq!(round_tripped.compiled_class_hash(), expected.compiled_class_hash());
}

#[test]
fn bytecode_words_are_canonical_libfuncs_coverage() {
    check_contract("libfuncs_coverage__libfuncs_coverage", false);
}

/// An older class, compiled when `felt252_const` was still what the compiler emitted for literals.
#[test]
fn bytecode_words_are_canonical_mintable() {
    check_contract("mintable", true);
}

/// An older class, compiled when `felt252_const` was still what the compiler emitted for literals.
#[test]
fn bytecode_words_are_canonical_with_erc20() {
    check_contract("with_erc20", false);
}

/// Sanity check: without any shift the compiled classes consist of canonical field elements.
#[test]
fn bytecode_words_are_canonical_unmodified() {
    let prime = Felt252::prime();
    for name in ["libfuncs_coverage__libfuncs_coverage", "mintable"] {
        let (casm, _) = compile_with_shifted_felt252_consts(name, &BigInt::from(0), true);
        assert!(casm.bytecode.iter().all(|word| word.value < prime));
    }
}


/// Compiles the example contract `name` after replacing the value `v` of every non-negative `felt252_const` by
/// `v - PRIME` (the same field element, spelled with a negative representative).
fn compile_with_negative_spelling(name: &str) -> (CasmContractClass, usize) {
    let prime = BigInt::from(Felt252::prime());
    let contract_class = load_example_contract_class(name);
    let mut extracted = contract_class.extract_sierra_program(false).unwrap();
    let mut n = 0;
    for declaration in &mut extracted.program.libfunc_declarations {
        if declaration.long_id.generic_id.0 != "felt252_const" {
            continue;
        }
        let [GenericArg::Value(value)] = &mut declaration.long_id.generic_args[..] else {
            panic!("Unexpected `felt252_const` generic arguments.");
        };
        if !value.is_negative() {
            *value -= &prime;
            n += 1;
        }
    }
    let casm =
        CasmContractClass::from_contract_class(contract_class, extracted, false, usize::MAX).unwrap();
    (casm, n)
}

#[test]
fn negative_spelling_is_canonical_mintable() {
    let prime = Felt252::prime();
    let (expected, _) = compile_with_shifted_felt252_consts("mintable", &BigInt::from(0), false);
    let (actual, n) = compile_with_negative_spelling("mintable");
    assert!(n > 0);
    for (offset, word) in actual.bytecode.iter().enumerate() {
        assert!(word.value < prime, "bytecode word at offset {offset} is not canonical: {:#x}", word.value);
    }
    assert_eq!(actual.bytecode, expected.bytecode);
}
