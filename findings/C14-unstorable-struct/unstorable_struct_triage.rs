//! Triage: a reference of a non-storable struct type (it has no entry in the type-size map).
use std::panic::{AssertUnwindSafe, catch_unwind};

use cairo_lang_sierra::ProgramParser;
use cairo_lang_sierra_to_casm::compiler::{SierraToCasmConfig, compile};
use cairo_lang_sierra_to_casm::metadata::calc_metadata_ap_change_only;
use cairo_lang_sierra_type_size::ProgramRegistryInfo;
use indoc::indoc;

fn run(code: &str) -> String {
    let program = ProgramParser::new().parse(code).unwrap();
    let r = catch_unwind(AssertUnwindSafe(|| {
        let info = match ProgramRegistryInfo::new(&program) {
            Ok(i) => i,
            Err(e) => return format!("rejected by the registry: {e}"),
        };
        let metadata = match calc_metadata_ap_change_only(&program, &info) {
            Ok(m) => m,
            Err(e) => return format!("rejected by metadata: {e}"),
        };
        match compile(
            &program,
            &info,
            &metadata,
            SierraToCasmConfig { gas_usage_check: false, max_bytecode_size: usize::MAX },
        ) {
            Ok(p) => format!("compiled:\n{p}"),
            Err(e) => format!("rejected by compile: {e}"),
        }
    }));
    match r {
        Ok(s) => s,
        Err(p) => format!(
            "PANIC: {}",
            p.downcast_ref::<String>().cloned().or_else(|| p.downcast_ref::<&str>().map(|s| s.to_string())).unwrap_or_default()
        ),
    }
}

#[test]
fn unstorable_struct_reference() {
    let out = run(indoc! {"
        type felt252 = felt252;
        type Uninit = Uninitialized<felt252>;
        type S = Struct<ut@S, Uninit>;

        libfunc alloc_local_felt252 = alloc_local<felt252>;
        libfunc finalize_locals = finalize_locals;
        libfunc construct_s = struct_construct<S>;
        libfunc deconstruct_s = struct_deconstruct<S>;
        libfunc store_local_felt252 = store_local<felt252>;

        alloc_local_felt252() -> ([1]);
        finalize_locals() -> ();
        construct_s([1]) -> ([2]);
        deconstruct_s([2]) -> ([3]);
        store_local_felt252([3], [0]) -> ([4]);
        return([4]);

        test::f@0([0]: felt252) -> (felt252);
    "});
    println!("{out}");
    assert!(!out.starts_with("PANIC"), "{out}");
}
