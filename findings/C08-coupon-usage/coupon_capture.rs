//! Error-free programs must compile all the way to a Sierra program that passes the Sierra
//! validation, without an internal compiler error, under every optimization configuration.
//!
//! The programs here use the struct update syntax (`S { a: x, ..base }`) inside a closure / a loop
//! body, where `base` is a variable of the enclosing function that is mentioned nowhere else in
//! the closure / loop. The closure / loop must capture `base` for its body to be compilable.

use std::panic::{AssertUnwindSafe, catch_unwind};

use cairo_lang_compiler::db::RootDatabase;
use cairo_lang_compiler::diagnostics::DiagnosticsReporter;
use cairo_lang_compiler::{CompilerConfig, compile_prepared_db_program};
use cairo_lang_lowering::optimizations::config::Optimizations;
use cairo_lang_lowering::utils::InliningStrategy;
use cairo_lang_semantic::test_utils::setup_test_crate;
use cairo_lang_sierra::extensions::core::{CoreLibfunc, CoreType};
use cairo_lang_sierra::program_registry::ProgramRegistry;

/// The coupon is mentioned only as the `__coupon__` argument of a call inside a closure.
const COUPON_IN_CLOSURE: &str = r#"
fn bar() nopanic {}
fn foo(x: bar::Coupon) {
    let f = || bar(__coupon__: x);
    f()
}
"#;

/// The coupon is mentioned only as the `__coupon__` argument of a call inside a loop.
const COUPON_IN_LOOP: &str = r#"
fn bar() nopanic {}
fn foo(x: bar::Coupon) {
    loop {
        bar(__coupon__: x);
        break;
    }
}
"#;

/// Control: the coupon is used outside of any closure / loop.
const COUPON_PLAIN: &str = r#"
fn bar() nopanic {}
fn foo(x: bar::Coupon) {
    bar(__coupon__: x);
}
"#;

/// All the optimization configurations to check, with a name for the failure message.
fn configs() -> Vec<(&'static str, Optimizations)> {
    vec![
        ("optimizations disabled", Optimizations::Disabled),
        (
            "optimizations enabled, default inlining",
            Optimizations::enabled_with_default_movable_functions(InliningStrategy::Default),
        ),
        (
            "optimizations enabled, avoid inlining",
            Optimizations::enabled_with_default_movable_functions(InliningStrategy::Avoid),
        ),
    ]
}

/// Compiles `content` under the given optimization configuration, requiring that no diagnostics
/// are reported, that the compiler does not panic, and that the resulting Sierra program passes the
/// Sierra validation.
fn compile_and_validate(name: &str, optimizations: Optimizations, content: &str) {
    let db = RootDatabase::builder()
        .detect_corelib()
        .with_optimizations(optimizations)
        .build()
        .expect("Failed to build the database.");
    let crate_id = setup_test_crate(&db, content);

    let mut diagnostics = String::new();
    let result = catch_unwind(AssertUnwindSafe(|| {
        let config = CompilerConfig {
            diagnostics_reporter: DiagnosticsReporter::write_to_string(&mut diagnostics),
            replace_ids: true,
            ..CompilerConfig::default()
        };
        compile_prepared_db_program(&db, vec![crate_id], config)
    }));
    let result = match result {
        Ok(result) => result,
        Err(payload) => {
            let msg = payload
                .downcast_ref::<String>()
                .cloned()
                .or_else(|| payload.downcast_ref::<&str>().map(|s| s.to_string()))
                .unwrap_or_else(|| "<non-string panic payload>".into());
            panic!("[{name}] Internal compiler error (panic) on an error-free program: {msg}");
        }
    };
    assert!(diagnostics.is_empty(), "[{name}] Unexpected diagnostics:\n{diagnostics}");
    let program = result.unwrap_or_else(|err| panic!("[{name}] Compilation failed: {err:?}"));

    if let Err(err) = ProgramRegistry::<CoreType, CoreLibfunc>::new(&program) {
        panic!("[{name}] The Sierra program failed validation: {err:?}\n{program}");
    }
}

#[test]
fn coupon_plain() {
    for (name, optimizations) in configs() {
        compile_and_validate(name, optimizations, COUPON_PLAIN);
    }
}

#[test]
fn coupon_in_closure() {
    for (name, optimizations) in configs() {
        compile_and_validate(name, optimizations, COUPON_IN_CLOSURE);
    }
}

#[test]
fn coupon_in_loop() {
    for (name, optimizations) in configs() {
        compile_and_validate(name, optimizations, COUPON_IN_LOOP);
    }
}
