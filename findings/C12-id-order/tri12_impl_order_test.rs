//! Scratch experiment (triage 12): does the intern order of ImplDefId change the text of the
//! "multiple implementations" diagnostic (candidate order comes from a BTreeSet ordered by
//! salsa id)?
use cairo_lang_defs::db::DefsGroup;
use cairo_lang_defs::ids::{ModuleId, NamedLanguageElementId};
use cairo_lang_semantic::db::SemanticGroup;
use cairo_lang_semantic::test_utils::setup_test_crate;

use crate::test_utils::LoweringDatabaseForTesting;

const SRC: &str = "
mod t { pub trait Tr<T> { fn f(self: T) -> felt252; } }
mod a { pub impl A of super::t::Tr<felt252> { fn f(self: felt252) -> felt252 { 1 } } }
mod b { pub impl B of super::t::Tr<felt252> { fn f(self: felt252) -> felt252 { 2 } } }
use t::Tr;
use a::A;
use b::B;
fn main() -> felt252 { let x: felt252 = 5; x.f() }
";

fn run(b_first: bool) -> String {
    let db = LoweringDatabaseForTesting::new();
    let db = &db;
    let crate_id = setup_test_crate(db, SRC);
    let root = ModuleId::CrateRoot(crate_id);
    let subs = db.module_submodules_ids(root).unwrap();
    let find = |name: &str| {
        ModuleId::Submodule(
            *subs.iter().find(|s| s.name(db).long(db).as_str() == name).unwrap(),
        )
    };
    // The only difference between the two runs: which submodule's items are collected first
    // (this is what two warm-up worker threads race on).
    let order = if b_first { ["b", "a"] } else { ["a", "b"] };
    for m in order {
        let _ = find(m).module_data(db).unwrap();
    }
    db.module_semantic_diagnostics(root).unwrap().format(db)
}

#[test]
fn tri12_multiple_impls_message_depends_on_intern_order() {
    let d0 = run(false);
    let d1 = run(true);
    println!("=== module a collected first ===\n{d0}");
    println!("=== module b collected first ===\n{d1}");
    assert_eq!(d0, d1, "diagnostic text depends on intern order");
}
