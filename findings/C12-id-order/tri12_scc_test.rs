//! Scratch experiment (triage 12): does the intern order of ConcreteFunctionWithBodyId change
//! which member of a mutually recursive pair gets `withdraw_gas`?
use cairo_lang_defs::db::DefsGroup;
use cairo_lang_defs::ids::NamedLanguageElementId;
use cairo_lang_semantic::test_utils::setup_test_module;

use crate::db::LoweringGroup;
use crate::ids::ConcreteFunctionWithBodyId;
use crate::test_utils::{LoweringDatabaseForTesting, formatted_lowered};
use crate::LoweringStage;

const SRC: &str = "
fn a(n: felt252) -> felt252 { if n == 0 { 0 } else { b(n - 1) } }
fn b(n: felt252) -> felt252 { if n == 0 { 1 } else { a(n - 1) } }
";

fn run(b_first: bool) -> (bool, bool, String, String) {
    let db = LoweringDatabaseForTesting::new();
    let db = &db;
    let module = setup_test_module(db, SRC).unwrap();
    let funcs = db.module_free_functions_ids(module.module_id).unwrap();
    let find = |name: &str| {
        *funcs.iter().find(|f| f.name(db).long(db).as_str() == name).unwrap()
    };
    let (fa, fb) = (find("a"), find("b"));
    // The only difference between the two runs: which concrete id is interned first.
    let (ca, cb) = if b_first {
        let cb = ConcreteFunctionWithBodyId::from_no_generics_free(db, fb).unwrap();
        let ca = ConcreteFunctionWithBodyId::from_no_generics_free(db, fa).unwrap();
        (ca, cb)
    } else {
        let ca = ConcreteFunctionWithBodyId::from_no_generics_free(db, fa).unwrap();
        let cb = ConcreteFunctionWithBodyId::from_no_generics_free(db, fb).unwrap();
        (ca, cb)
    };
    let na = db.needs_withdraw_gas(ca).unwrap();
    let nb = db.needs_withdraw_gas(cb).unwrap();
    let la = formatted_lowered(db, db.lowered_body(ca, LoweringStage::Final).ok());
    let lb = formatted_lowered(db, db.lowered_body(cb, LoweringStage::Final).ok());
    (na, nb, la, lb)
}

#[test]
fn tri12_scc_representative_depends_on_intern_order() {
    let (na0, nb0, la0, lb0) = run(false);
    let (na1, nb1, la1, lb1) = run(true);
    println!("a-first: needs_withdraw_gas(a)={na0} (b)={nb0}");
    println!("b-first: needs_withdraw_gas(a)={na1} (b)={nb1}");
    println!("final lowering of `a` identical: {}", la0 == la1);
    println!("final lowering of `b` identical: {}", lb0 == lb1);
    println!("--- a (a-first) ---\n{la0}\n--- a (b-first) ---\n{la1}");
    assert_eq!((na0, nb0), (na1, nb1), "withdraw_gas placement depends on intern order");
}
