# Claim table: one entry per property whose rule set runs. Text = the clause decided.
DECIDES = " Decides this structural part, not the behaviour."
claim("C15", "dominators / control dependence with normalised relations on MIR; removing-operation typestate",
      "Every clause of the statement (argument types, exact-once consumption, nothing left over at return, agreement at merges, "
      "branch alignment, dup/drop only where allowed, frame/ap state) has a rejection guard on every path to acceptance: the test "
      "compares the right operands with the right relation, its rejecting edge cannot fall through, it cannot be bypassed, and "
      "consumption is a removing map operation. Here the guards are the property, so the claim is the full acceptance discipline; "
      "that libfunc signatures describe the generated code is assumed.",
      "trusted: rustc MIR + trait resolution, the fact dumper, rules/guards.py; assumes callee semantics of std/indexmap/itertools",
      "DESIGN.md section 4, C15")
