# Claim table: one entry per property whose rule set runs. Text = the clause decided.
DECIDES = " Decides this structural part, not the behaviour."
claim("C15", "dominators / control dependence with normalised relations on MIR; removing-operation typestate",
      "Every clause of the statement (argument types, exact-once consumption, nothing left over at return, agreement at merges, "
      "branch alignment, dup/drop only where allowed, frame/ap state) has a rejection guard on every path to acceptance: the test "
      "compares the right operands with the right relation, its rejecting edge cannot fall through, it cannot be bypassed, and "
      "consumption is a removing map operation; the two records of a function's parameter types (params, signature) are compared before acceptance "
      "(one genuine defect found by that rule was repaired in /repo, fix: commit 808a128). Here the guards are the property, so the claim is the full acceptance discipline; "
      "that libfunc signatures describe the generated code is assumed.",
      "trusted: rustc MIR + trait resolution, the fact dumper, rules/guards.py; assumes callee semantics of std/indexmap/itertools",
      "DESIGN.md section 4, C15")
claim("C05", "gate rule on MIR (typestate of the `immovable` flag) + table agreement Rust string constants <-> corelib `.cairo` declarations + sibling agreement of tree traversals (backward slices of stack pushes)",
      "The statement-reordering pass may move or delete a call only if the callee is in the configured moveable set, and every "
      "member of the default and minimal moveable sets is declared in the core library as an `extern fn ... nopanic` with no "
      "implicit parameters, hence cannot panic, consume gas, touch a builtin or the system; the three stack-driven traversals of "
      "specialization-argument trees (parameter types of a specialized function, builder of its body, re-specialization in const folding) "
      "all push the children of an aggregate in reverse, so they agree on the order of the unspecialized leaves." + DECIDES +
      " Semantic preservation by each optimisation rewrite (const folding, match optimisation, inlining, CSE, ...) is not decided.",
      "trusted: rustc MIR, fact dumper, token-level scan of corelib extern declarations; assumes nopanic+no-implicits externs are side-effect free",
      "DESIGN.md section 4, C05")
claim("C18", "sibling agreement extracted from MIR (tag/flag/sentinel/field-order maps of writer and reader) + field-read discipline over the call graph",
      "The hand-written felt252 serializer and deserializer use the same tags (incl. the negation on tag 5), flag bits, sentinel and "
      "field order; every generic id longer than 31 bytes is registered for long-id serialization; and no function reachable from the "
      "Sierra->CASM path reads an id's debug_name except formatting/serde/debug-info code, nor does any Eq/Hash/Ord of an id." + DECIDES +
      " Text round-trip through the LALRPOP grammar, JSON round-trip and byte-identical CASM after round-trip are not decided.",
      "trusted: rustc MIR, fact dumper, extractor shapes in rules/c18.py (fail closed when a shape is not recognised)",
      "DESIGN.md section 4, C18")
claim("C19", "must-pass-through / control dependence on MIR + field-flow provenance + table agreement (repo tables vs. protocol order file)",
      "CasmContractClass::from_contract_class_with_debug_info returns Ok only after the class-level checks of the statement (sorted unique "
      "selectors over all three entry-point lists, constructor shape, entry-point signature shape, builtins from the allowed table in order "
      "with gas and system last); each entry point's offset derives from start_offset of the statement info indexed by the function's entry "
      "statement, its selector and builtins from the validated data of the same list; every bytecode word is reduced modulo the prime; the "
      "builtin order validated is the order the Starknet plugin generates and the protocol defines; segment starts come from function entry "
      "statements." + DECIDES + " Equality with compilation directly from the compiler's output and hash stability under JSON are not decided.",
      "trusted: rustc MIR, fact dumper, rules/guards.py; tables/c19_builtin_order.txt is an external specification",
      "DESIGN.md section 4, C19")
claim("C03", "abstract interpretation of the CasmBuilder API over MIR paths (def-use of Var values) + CASM-level CFG of the abstract listing",
      "In every libfunc builder, on every Rust-level path of the generator and every path of the generated CASM, each memory cell written "
      "by a hint is subsequently used by a constraint-bearing instruction (a real equation, a write to a builtin buffer, or the condition of "
      "a conditional jump) before it can reach a result; integer-witness outputs (DivMod, WideMul128, SquareRoot, Uint256DivMod, "
      "Uint512DivModByUint256, Uint256SquareRoot, U256InvModN, LinearSplit) additionally reach a range-check write directly or through "
      "derived values, are determined by an equation over pinned values, or leave the libfunc inside a guarantee; both successors of a jump "
      "on a boolean hint output are validated; no CASM variable is written to the range-check buffer twice along a path (a re-check bounds "
      "nothing, the quantity it was meant for is unchecked)." + DECIDES +
      " Whether the constraints are arithmetically sufficient (bounds, wrap-around, which algorithm is sound for which ranges) and the "
      "hint implementations in the runner are not decided.",
      "trusted: rustc MIR, fact dumper, the CasmBuilder model in rules/casm_abs.py; range-check pointers are recognised by the builders' naming convention",
      "DESIGN.md section 4, C03")
claim("C20", "field-flow and variant-flow identity on MIR pairs (new / embed) with provenance through closures, &mut calls and control dependence",
      "For every cached mirror type XCached of the defs, semantic and lowering caches with its functions new(source, ctx) and "
      "embed/get_embedded(self, ctx): every rebuilt source field with a same-named mirror field derives from that field (not from a "
      "same-typed sibling), no source field is silently defaulted outside the reasoned exception table, every mirror field is read on "
      "load and saved from its source field; for enum mirrors the composition source variant -> mirror variant -> source variant is the "
      "identity, unsupported (panicking) variants are an enumerated set and no catch-all arm swallows a source variant; cached lowerings "
      "are consulted only for crates with a configured cache file; the interning tables of the saving contexts store payloads computed from the key alone; "
      "the validity test of a crate cache compares every field of the recorded metadata (compiler version, settings, global flags) with the freshly "
      "computed one, field against field, and refuses on a mismatch; no routine of the cache modules re-orders or de-duplicates a sequence or collects it into a container with an order of its own." + DECIDES +
      " Consistency of the id lookup tables across sections and whether the recorded metadata is *sufficient* (covers every input of the cached phases) are not decided.",
      "trusted: rustc MIR, fact dumper, name-based pairing of mirror and source fields; tables/c20_exceptions.tsv lists reasoned exceptions; known_findings.jsonl lists two genuine defects (diagnostics of the cached crate itself that differ)",
      "DESIGN.md section 4, C20")
claim("C14", "call-graph reachability (class-hierarchy resolution) + panic-site inventory + allocation-size provenance + guard obligations",
      "(a) Bounded allocation: every allocation in code reachable from the untrusted-Sierra entry points has a size that is constant, "
      "derives from the length of materialised data or a <=16-bit quantity, or is dominated by a comparison against the remaining input. "
      "(b) Panic edges: the multiset of panic-capable sites (overflow/bounds/division asserts, explicit panics, unwrap/expect/index/zip_eq/"
      "integer sum/into_or_panic/integer operators with a reference operand ...) in functions reachable from those entry points is contained in the recorded inventory "
      "(tables/c14_sites.tsv); the validations that protect them are on every path; every rejection that was constructed in reachable "
      "code still is." + DECIDES + " Inventory rows of class U are an inherited baseline that is not individually triaged: for them the "
      "claim is only that the set does not grow. (c) Termination: each of the loops in workspace code reachable from those entry points is driven by an "
      "iterator / worklist, counts a growing length or a stepped index, or terminates under a recorded precondition that every reachable caller "
      "establishes by rejecting the other values before the call; a worklist loop marks (visited set / status slot) what it expands before pushing; "
      "the call sites of validation routines on the path do not disappear; every validator of the data of a const type fixes the number of data arguments by an equality test; a division or remainder by a value taken from the program is preceded by a test of that value. No Result whose error type is the rejection type of specialisation (SpecializationError) is unwrapped on the path. Termination of recursion, of loops inside external crates and memory bounds beyond (a) are not decided. Two genuine panics found by (b) in the "
      "ap-change computation, a non-terminating worklist in the circuit type specialisation "
      "and five unchecked offset / ap-change computations in sierra-to-casm were repaired in /repo (fix: commits 938a2fe, aa8782c, 17c99da, e0b62af, 327cf5e, 9110ec8, 0885174, 7fd95f8, 93583bd, be5a9dc, bd4cefe, 9c431a5, 2cbb2b3); "
      "the i64 overflow of the legacy equation solver and the i32 overflow of the gas cost arithmetic are recorded known findings.",
      "trusted: rustc MIR, fact dumper; external crates are leaves modelled by the list of panicking entry points in rules/c14.py; class-U inventory rows carry no safety claim",
      "DESIGN.md section 4, C14")
claim("C13", "Eq-completeness over MIR field reads + call-graph reachability from tracked functions + who-may-construct / who-may-call rules",
      "Every hand-written equality of a workspace type compares every field (or only derived caches are ignored, each checked to be "
      "derived), Hash never reads more than Eq; every file-system read reachable from a salsa tracked function is dominated by "
      "report_untracked_read (one reasoned exception: crate-cache blobs); SyntaxNode values are constructed only in from_data / "
      "new_syntax_node with cache fields derived from the node data, canonical roots only by the parser's file query; the tracked fields of "
      "SyntaxNodeData are exactly green and offset_in_parent; every interior-mutable static is enumerated and none is written from "
      "tracked-reachable code." + DECIDES + " The equivalence of incremental and from-scratch results over all edit histories is not decided.",
      "trusted: rustc MIR, fact dumper, class-hierarchy call graph restricted to visible crates; derived PartialEq is complete by construction",
      "DESIGN.md section 4, C13")
claim("C12", "type-resolved who-may-call over all workspace MIR + enumerated tables with reasons + call-graph reachability from tracked functions",
      "(a) Every place where workspace code can observe the iteration order of a std/hashbrown hash container (order-revealing methods, the "
      "container handed to a generic consumer, serde serialisation) is in the reasoned table; the Unordered* wrappers expose iteration only "
      "sorted or through order-insensitive results; (b) no schedule-dependent id type implements Ord, and the functions that compare or "
      "expose unstable interned ids are exactly an enumerated, individually argued set (two of them are genuine defects, listed as known "
      "findings); (c) the parallel warm-up returns nothing and ensure_diagnostics returns the sequential result; no ambient input (env, "
      "clock, randomness, thread/process id) is read in code reachable from a tracked query outside the table; (d) no closure handed to a rayon "
      "consumer / join / spawn / scope writes order-bearing shared state (a lock or mutable borrow over anything but a hashed / sorted set or map, a channel, a value-returning atomic), so values leave a parallel body only through "
      "its return value, which the collectors put back in input order; (e) an id built by the Sierra generator that keeps the interned "
      "number it was given (the debug-name replacer) carries Some(debug name) on every path, so no intern number is printed." + DECIDES +
      " That the remaining order sources (BFS order, OrderedHash* insertion order) are deterministic functions of the sources is not decided.",
      "trusted: rustc MIR and type resolution, fact dumper; tables c12_hash_iter.tsv / c12_id_order.tsv / c12_ambient.tsv carry the reasons",
      "DESIGN.md section 4, C12")
claim("C08", "path rules on MIR (guard obligations on the demand-analysis callbacks) + gate propagation over the call graph + exhaustive-visit rule on a tree walk",
      "Mainly the second sentence of C08: whenever the borrow checker's demand analysis meets a second use of a variable or an undemanded "
      "variable, the reporter callback is reached on every path; the callbacks report VariableMoved / VariableNotDropped / "
      "DesnappingANonCopyableType unless copy / drop / destruct / panic-destruct applies with the right impl-function pairing; the analyzer "
      "introduces every statement's outputs, uses its inputs and merges with the panic branch at every panicable call under no further condition; and every call "
      "leading to a Sierra-program query is dominated by the success edge of the diagnostics gate (ensure / ensure_diagnostics / !check) or "
      "lies in a function all of whose callers are, except documented-precondition entry points; the per-function lowering-diagnostics query asks every analysis it consults about its own function." + DECIDES +
      " Of the first sentence only this is decided: the variable-usage analysis that gives closures their captures and loop functions their "
      "parameters reaches every child expression of every expression kind. Totality of the back end on error-free programs is otherwise not decided. "
      "One genuine defect found by that rule (a coupon argument was not walked) was repaired in /repo (fix: commit d7f6deb).",
      "trusted: rustc MIR, fact dumper, rules/guards.py; assumes indexmap insert/swap_remove semantics",
      "DESIGN.md section 4, C08")
claim("C07", "must-pass-through on MIR (validation dominates constant construction) + reachability with correlated predicates",
      "'An expression that would overflow, divide by zero or fail a conversion at run time is never silently given a value at compile "
      "time': in the semantic const evaluator every constant built from a BigInt arithmetic result passes validate_literal (or "
      "canonical_felt252 on the felt252 branch), division and remainder are reached only after the zero-divisor test that reports "
      "DivisionByZero, the div_rem quotient is validated; in the lowering const folder folded felt252 results pass canonical_felt252 / "
      "field_div and folded checked-integer results pass TypeRange::normalized with the arm selected from its result (two reasoned "
      "exceptions: wide_mul, bounded_int_add/sub); every quotient / remainder computed on constants in either evaluator is of the truncating "
      "family (the one DivRem::div_rem and its run-time projections `/` and `%` use), and a compile-time remainder comes from a div_rem whose "
      "quotient is validated; the value handed to the range tests is computed with exact BigInt arithmetic; wherever the members of a struct "
      "constructor expression are turned into an ordered sequence, the sequence is driven by the declared member order, as at run time; the gate that "
      "admits a call into a constant says yes only for the panic function, a const signature, or a core-crate impl of a registered const trait; "
      "the `!=` arm of the evaluator calls the same routines as the `==` arm (it is its negation)." + DECIDES + " Agreement of the remaining BigInt arithmetic with the libfuncs on values (conversions, shifts, "
      "wrapping) is not decided. One genuine defect found by these rules (`MIN % -1` accepted at compile time) was repaired in /repo (fix: commit 303bcdf).",
      "trusted: rustc MIR, fact dumper; assumes validate_literal and canonical_felt252 implement the type ranges / the field correctly",
      "DESIGN.md section 4, C07")
claim("C09", "call-graph reachability + panic-site inventory; interprocedural typestate dataflow of the parser look-ahead over MIR; abstract interpretation of the parser / lexer on an unchanged look-ahead (progress of loops and recursion)",
      "(a) The multiset of panic-capable sites reachable from the lexing, parsing and formatting entry points inside cairo-lang-parser and "
      "cairo-lang-formatter is contained in the recorded inventory (a new site is a violation; class-U rows are an inherited baseline that is "
      "not individually triaged); (b) every Parser::take::<T>() is preceded on every path, with no possibly-consuming call in between, by a "
      "test that the next terminal's kind is T::KIND (established locally, by the callers of the enclosing function, or per instantiation for "
      "type parameters) - exactly what the function asserts; every use of the second look-ahead terminal is preceded by a non-EOF test." +
      " (c) Progress: an abstract interpreter over the MIR runs the prefix of every parser routine that executes on an unchanged look-ahead, for "
      "every terminal kind and calling context, and shows that a list element parser never returns Ok / Err(DoNothing) without having consumed a "
      "token, that no loop of the parser can go round without consuming (at end of file: without leaving), that no routine re-enters itself on an "
      "unchanged look-ahead, that a routine which panics for some next-terminal kinds (an unreachable!() arm of a dispatch on the kind) is reached "
      "only with the other kinds; the same over the lexer with the next character as look-ahead (every loop takes a character, match_terminal advances)." +
      " The look-ahead window is never popped at end of file (same interpreter with a pop at TerminalEndOfFile counted as a panic; one pop_front, dominated by a refill; window filled at construction), so the window accesses cannot fail." +
      DECIDES + " Stack depth on nested input, termination of the formatter, and totality of semantic/lowering diagnostics on garbage are not decided.",
      "trusted: rustc MIR, fact dumper; for (b) calls that take &mut Parser outside the non-consuming list are assumed to consume; for (c) the token window moves only in Parser::take_raw/advance and the character cursor only in Lexer::take (R10.1), a call that cannot be interpreted is reported; class-U inventory rows carry no safety claim",
      "DESIGN.md section 4, C09")
claim("C10", "field-write discipline + linear-use dataflow + who-may-call rules on MIR; width/children provenance over all green-node constructors; flow-sensitive must-hand-on search for consumed green nodes; interprocedural may-pending / must-flush summaries of the pending-trivia queue",
      "No API of the lexer, parser or green tree can drop, duplicate or reorder source text: the lexer cursor fields are written only in new / "
      "take / consume_text_span with the prescribed values; every consumed span becomes token text; Parser::advance is called only by take_raw "
      "and unglue and every field of a taken terminal reaches add_trivia_to_terminal or the pending trivia; pending trivia is append-only and "
      "taken only when attached (prepended to the terminal's own leading trivia); every GreenNodeDetails::Node has width = sum over exactly "
      "the children it stores; the parser's green caches are keyed by the exact text; every green node a parser routine obtains from a "
      "token-consuming call or receives as a parameter is handed on (to a constructor, container, parser routine, skip helper or the caller) on "
      "every feasible path to a return, and on none twice; a helper that re-roots a child of an existing node carries, or proves empty, every sibling; "
      "a node taken earlier and pushed on the pending trivia later (a delayed skip) is pushed while no trivia consumed after its first token "
      "can still be pending, and no node taken after it is kept in the tree (summaries of what each parser routine may leave pending, per "
      "returned variant, and which routines always flush)." + DECIDES +
      " take_doc's split is not decided. Genuine defects found by these rules were repaired in /repo: two lost tokens "
      "(fix: commits 273025f, a31d98e) and seven delayed skips that re-attached skipped text out of source order, e.g. `b::fn x;` (fix: bb7a9e8); "
      "`pub` before an inline macro item (two path classes) is a recorded known finding. A routine that receives the text of a file hands that very "
      "slice to the lexer.",
      "trusted: rustc MIR, fact dumper; assumes TextSpan::take slices exactly the addressed text and Vec::extend/push append in order",
      "DESIGN.md section 4, C10")
claim("C11", "path rules on MIR: must-pass-through inside loops, control dependence on kind-equality tests, option-flag gating",
      "The formatter's tree walk formats every child (or skips a zero-width one); format_terminal formats both trivia lists and emits the "
      "token unless should_skip_terminal holds; format_trivia matches every trivium kind, each comment kind reaches push_comment with the "
      "trivium's text and skipped tokens/nodes are emitted; should_skip_terminal can return true only under an equality test of the node's "
      "kind with TerminalComma, TerminalEmpty, TerminalSemicolon or TerminalColonColon; use-merging and sorting are called only under their "
      "configuration flags; nodes with ignored formatting keep their original text; a routine that rewrites a list of child nodes either moves "
      "whole nodes only or selects / drops / duplicates / re-parses nodes under a has_only_whitespace_trivia guard covering every affected node "
      "(over the whole rewritten list, or per node with failing nodes left intact); a break point adds a trailing comma only where the written "
      "one is dropped; the optional `;` after a block-like statement is dropped only on the word of the parser's post-operator table applied "
      "to the first token of the next statement." + DECIDES +
      " No token kind that the no-space rules make tight whatever its context can be joined with a neighbour into another token (spellings from the lexer's dispatch, maximal munch; eight such joins inside macro token trees are known findings); conditions on the parent kinds are evaluated for the position of a token in a token tree; word-like tokens are not covered. Idempotence and re-parsability of the output (line-breaking search) are not decided.",
      "trusted: rustc MIR, fact dumper; assumes LineBuilder::push_str/push_comment append their argument",
      "DESIGN.md section 4, C11")
