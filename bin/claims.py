# Claim table: one entry per property whose rule set runs. Text = the clause decided.
DECIDES = " Decides this structural part, not the behaviour."
claim("C15", "dominators / control dependence with normalised relations on MIR; removing-operation typestate",
      "Every clause of the statement (argument types, exact-once consumption, nothing left over at return, agreement at merges, "
      "branch alignment, dup/drop only where allowed, frame/ap state) has a rejection guard on every path to acceptance: the test "
      "compares the right operands with the right relation, its rejecting edge cannot fall through, it cannot be bypassed, and "
      "consumption is a removing map operation. Here the guards are the property, so the claim is the full acceptance discipline; "
      "that libfunc signatures describe the generated code is assumed.",
      "trusted: rustc MIR + trait resolution, the fact dumper, rules/guards.py; assumes callee semantics of std/indexmap/itertools",
      "DESIGN.md section 4, C15")
claim("C05", "gate rule on MIR (typestate of the `immovable` flag) + table agreement Rust string constants <-> corelib `.cairo` declarations",
      "The statement-reordering pass may move or delete a call only if the callee is in the configured moveable set, and every "
      "member of the default and minimal moveable sets is declared in the core library as an `extern fn ... nopanic` with no "
      "implicit parameters, hence cannot panic, consume gas, touch a builtin or the system." + DECIDES +
      " Semantic preservation by each optimisation rewrite (const folding, match optimisation, inlining, CSE, ...) is not decided.",
      "trusted: rustc MIR, fact dumper, token-level scan of corelib extern declarations; assumes nopanic+no-implicits externs are side-effect free",
      "DESIGN.md section 4, C05")
claim("C18", "sibling agreement extracted from MIR (tag/flag/sentinel/field-order maps of writer and reader) + field-read discipline over the call graph",
      "The hand-written felt252 serializer and deserializer use the same tags (incl. the negation on tag 5), flag bits, sentinel and "
      "field order; every generic id longer than 31 bytes is registered for long-id serialization; and no function reachable from the "
      "Sierra->CASM path reads an id's debug_name except formatting/serde/debug-info code, nor does any Eq/Hash/Ord of an id." + DECIDES +
      " Text round-trip through the LALRPOP grammar, JSON round-trip and byte-identical CASM after round-trip are not decided.",
      "trusted: rustc MIR, fact dumper, extractor shapes in rules/c18.py (fail closed when a shape is not recognised)",
      "DESIGN.md section 4, C18")
claim("C19", "must-pass-through / control dependence on MIR + field-flow provenance + table agreement (repo tables vs. protocol order file)",
      "CasmContractClass::from_contract_class_with_debug_info returns Ok only after the class-level checks of the statement (sorted unique "
      "selectors over all three entry-point lists, constructor shape, entry-point signature shape, builtins from the allowed table in order "
      "with gas and system last); each entry point's offset derives from start_offset of the statement info indexed by the function's entry "
      "statement, its selector and builtins from the validated data of the same list; every bytecode word is reduced modulo the prime; the "
      "builtin order validated is the order the Starknet plugin generates and the protocol defines; segment starts come from function entry "
      "statements." + DECIDES + " Equality with compilation directly from the compiler's output and hash stability under JSON are not decided.",
      "trusted: rustc MIR, fact dumper, rules/guards.py; tables/c19_builtin_order.txt is an external specification",
      "DESIGN.md section 4, C19")
