"""C10 - the syntax tree is lossless (clause: no API of the lexer, parser or green tree can drop,
duplicate or reorder source text)."""
import os
from collections import Counter, defaultdict

from .guards import prov, op_prov
from .lib import (fn_key, op_local, op_const, op_place, place_local, place_proj, place_fields, rvalue_places,
                  rvalue_operands, last_seg, strip_generics, AnchorError)

EXPLANATION = (
    "Decides the structural clause of C10 as the conjunction of disciplines, each a necessary condition of "
    "concat(leaves) == input and width(n) == sum of children widths: (R10.1) the lexer cursor fields are written "
    "only in Lexer::new, take (advance by the peeked character's width) and consume_text_span (previous := "
    "current), so consumed spans are contiguous, disjoint and ordered; (R10.2) the result of every "
    "consume_text_span call flows into a green token or the terminal's text; (R10.3) Parser::advance is called "
    "only by take_raw and unglue, and in every caller of take_raw each text-carrying field of the returned "
    "terminal (leading trivia, text, trailing trivia) flows into add_trivia_to_terminal or the pending trivia "
    "(text wrapped as TokenSkipped), with no clone of a terminal; (R10.4) pending trivia is only extended / "
    "pushed, and taken only in add_trivia_to_terminal where it is prepended to the terminal's own leading "
    "trivia; (R10.5) every GreenNodeDetails::Node built in cairo-lang-syntax has width = sum over exactly the "
    "children it stores (or the empty default); (R10.7) every green value a parser routine obtains from a token-"
    "consuming call (or receives as a parameter) is handed on - to a green constructor, a container, another parser "
    "routine, a skip_taken_node* helper or the caller - on every feasible path to a return (flow-sensitive search "
    "with the wrapper-variant, tuple-flag and is_empty facts of the parser's own idioms); (R10.8) a helper that "
    "re-roots a child of an already built green node carries every sibling of that child into its result; (R10.9) no "
    "such green is handed on twice along one path. That the parser's choice of where trivia is attached preserves "
    "order in every recovery scenario beyond these APIs is not decided.")
ASSUMPTIONS = ["TextSpan::take / TextOffset::take_from return exactly the addressed slice of the input",
               "Vec::extend / push append at the end (order preserving)"]
EXHAUSTIVE = True
CRATES = ["cairo_lang_parser", "cairo_lang_syntax"]
LEXER = "cairo_lang_parser::lexer::Lexer"
PARSER = "cairo_lang_parser::parser::Parser"


def field_writes(F, adt, field):
    """[(fn, rvalue, line)] for every assignment to <adt>.<field> and every aggregate of adt."""
    out = []
    for p, f in F.fns.items():
        if not f.body:
            continue
        for i, j, st in f.stmts():
            if st[0] != "a":
                continue
            dst = st[1]
            if not isinstance(dst, int):
                for e in dst[1]:
                    if isinstance(e, list) and e[0] == "f" and e[3] == adt and e[2] == field and e is dst[1][-1]:
                        out.append((f, st[2], st[3], "assign"))
            if st[2][0] == "agg" and st[2][1] == "adt" and st[2][2] == adt and field in st[2][5]:
                out.append((f, st[2], st[3], "aggregate"))
    return out


def run(ctx):
    F = ctx.load(CRATES)

    # ---------------- R10.1 lexer cursor discipline
    allowed = {"previous_position": {"new": "initialised to START", "consume_text_span": "previous := current"},
               "current_position": {"new": "initialised to START", "take": "advanced by the width of the peeked character"}}
    for fld, okfns in allowed.items():
        ws = field_writes(F, LEXER, fld)
        for f, rv, line, how in ws:
            nm = last_seg(f.path)
            ok = nm in okfns and f.path.startswith(LEXER)
            detail = ""
            if f.d.get("derived") and f.d.get("trait") == "core::clone::Clone":
                ctx.ob("R10.1", "Lexer.%s:write@derived-clone" % fld, True, "derived Clone copies the cursor field", f.where(line))
                continue
            if ok and how == "assign":
                toks = set()
                for o in rvalue_operands(rv):
                    toks |= op_prov(f, o, 8)
                for pl in rvalue_places(rv):
                    toks |= set("f:" + x for x in place_fields(pl) if x)
                if fld == "previous_position":
                    ok = "f:current_position" in toks
                    detail = "assigned from current_position" if ok else "assigned from %s" % sorted(t for t in toks if t[0] in "fc")
                else:
                    ok = "c:add_width" in toks and "c:from_char" in toks and "f:current_position" in toks
                    detail = "current + width(peeked char)" if ok else "assigned from %s" % sorted(t for t in toks if t[0] in "fc")
            ctx.ob("R10.1", "Lexer.%s:write@%s" % (fld, nm), ok,
                   "cursor field `%s` written in %s (%s %s)" % (fld, nm, how, detail or okfns.get(nm, "NOT an allowed writer")), f.where(line))
    # each prescribed writer still writes its field
    for fld, okfns in allowed.items():
        ws = field_writes(F, LEXER, fld)
        for nm in okfns:
            has = any(last_seg(f.path) == nm and f.path.startswith(LEXER) for f, rv, line, how in ws)
            ctx.ob("R10.1", "Lexer.%s:written-by-%s" % (fld, nm), has,
                   "`%s` %s in Lexer::%s (%s)" % (fld, "is written" if has else "is NO LONGER written", nm, okfns[nm]), "")
    tk = F.find1(LEXER, name="take")
    ctx.analysed(tk)
    # the advance uses the character that peek returned (not a different one)
    ok = any(c.name() == "from_char" and "c:peek" in op_prov(tk, c.args[0], 8) for c in tk.calls())
    ctx.ob("R10.1", "Lexer::take:advance-by-peeked-char", ok, "the width added is that of the character returned by peek()", tk.where())

    # ---------------- R10.2 every consumed span becomes text, unshortened
    TEXT_ID = {"take", "from", "into", "new_green", "as_ref", "deref", "borrow", "clone", "as_str", "to_owned", "intern"}

    def text_fate(f, start_local, depth=0):
        """(reaches a token text, via TextSpan::take, [calls that transform the text on the way])."""
        fl = f.flows_to(start_local)
        sink = via_take = False
        transformers = []
        for x in f.calls():
            hit = any(op_local(a) in fl for a in x.args)
            if not hit:
                continue
            if x.name() == "take" and "TextSpan" in x.path:
                via_take = True
            if x.name() == "new_green":
                sink = True
            elif place_local(x.dest) in fl and x.name() not in TEXT_ID:
                transformers.append((x.name(), x.where()))
        for _, _, st in f.stmts():
            if st[0] == "a" and st[2][0] == "agg" and st[2][1] == "adt" and st[2][2].endswith("LexerTerminal"):
                ops = dict(zip(st[2][5], st[2][3]))
                if op_local(ops.get("text")) in fl:
                    sink = True
        if not sink and 0 in fl and depth < 3:
            # handed back to the caller: the obligation continues at every call site
            callers = [c for c in F.callers_of(last_seg(f.path)) if c.path == f.path]
            if callers:
                sub = [text_fate(c.fn, place_local(c.dest), depth + 1) for c in callers]
                sink = all(x[0] for x in sub)
                for x in sub:
                    transformers += x[2]
                via_take = via_take or all(x[1] for x in sub)
        return sink, via_take, transformers

    n_cts = 0
    for p, f in sorted(F.fns.items()):
        if not f.body or not p.startswith(LEXER):
            continue
        ords = 0
        for c in f.calls():
            if c.name() != "consume_text_span":
                continue
            n_cts += 1
            ords += 1
            ctx.analysed(f)
            sink, via_take, transformers = text_fate(f, place_local(c.dest))
            ok = sink and via_take and not transformers
            ctx.ob("R10.2", "%s|consume_text_span#%d" % (fn_key(p), ords), ok,
                   "the consumed span is sliced out of the input (TextSpan::take: %s) and becomes a green token / terminal text (%s)%s" % (
                       via_take, sink, "" if not transformers else "; on the way it passes through %s, which can shorten or change it" %
                       ", ".join("%s (%s)" % t for t in transformers[:3])), c.where())
    ctx.floor("consume_text_span call sites", n_cts, 4)

    # ---------------- R10.12 the lexer is given the whole text
    # A routine that receives the text of a file as a `&str` parameter and hands it to the constructor of the lexer or of
    # the parser hands over that very slice: nothing may be cut off in between (the tree is installed for the whole file).
    # Token-stream entry points slice on purpose and carry an offset; their text does not come from a `&str` parameter.
    def text_slice(f, op, limit=300):
        from .lib import rvalue_operands
        names, params, todo, seen = [], set(), [op], set()
        while todo and len(seen) < limit:
            o = todo.pop()
            pl = op_place(o)
            if pl is None:
                continue
            l = place_local(pl)
            if l in seen:
                continue
            seen.add(l)
            if 1 <= l <= f.argc and "str" in (f.local_ty(l) or "") and (f.local_ty(l) or "").startswith("&"):
                params.add(l)
            for d in f.defs().get(l, []):
                if d[0] == "stmt":
                    rv = d[3]
                    if rv[0] == "ref":
                        todo.append(["c", rv[1]])
                    else:
                        todo.extend(rvalue_operands(rv))
                elif d[0] == "call":
                    names.append((d[2].name(), d[2].where()))
                    if d[2].args:
                        todo.append(d[2].args[0])
        return names, params
    n_text = 0
    for p, f in sorted(F.fns.items()):
        if not f.body or f.crate != "cairo_lang_parser":
            continue
        sites = []
        for c in f.calls():
            if (c.path.startswith(LEXER) or c.path.startswith(PARSER)) and c.name() == "new":
                for a in c.args:
                    pl = op_place(a)
                    ty = (f.local_ty(place_local(pl)) or "") if pl is not None else ""
                    if ty.startswith("&") and "str" in ty:
                        sites.append((c, a, "%s::new" % ("Lexer" if c.path.startswith(LEXER) else "Parser")))
        for i, j, st in f.stmts():
            if st[0] == "a" and st[2][0] == "agg" and st[2][1] == "adt" and st[2][2] in (PARSER, LEXER) and "text" in (st[2][5] or []):
                o = dict(zip(st[2][5], st[2][3]))["text"]
                sites.append((None, o, "%s.text" % last_seg(st[2][2])))
        k = 0
        for c, a, what in sites:
            names, params = text_slice(f, a)
            if not params:
                continue
            bad = [n for n in names if n[0] not in TEXT_ID]
            k += 1
            n_text += 1
            ctx.ob("R10.12", "%s|%s#%d" % (fn_key(p), what, k), not bad,
                   "the text parameter reaches %s unchanged" % what if not bad else
                   "the text parameter is passed through %s before it reaches %s: the lexer does not see the whole file" % (
                       ", ".join("%s (%s)" % n for n in bad[:3]), what), c.where() if c is not None else f.where())
    ctx.floor("places where a text parameter is handed to the lexer / parser", n_text, 4)

    # ---------------- R10.3 linear use of lexed terminals
    adv_callers = set(last_seg(c.fn.root) for c in F.callers_of("Parser") if c.name() == "advance" and c.path.startswith(PARSER))
    ctx.ob("R10.3", "advance-callers", adv_callers == {"take_raw", "unglue"}, "Parser::advance is called by %s" % sorted(adv_callers), "")
    tr_callers = defaultdict(list)
    for c in F.callers_of("take_raw"):
        if c.name() == "take_raw" and c.path.startswith(PARSER):
            tr_callers[c.fn.path].append(c)
    ctx.floor("callers of take_raw", len(tr_callers), 2)
    TEXT_FIELDS = {"leading_trivia", "text", "trailing_trivia"}

    def terminal_fields_used(f):
        """Fields of a LexerTerminal that the function reads (moves out of a terminal it holds)."""
        used = set()
        for _, _, st in f.stmts():
            if st[0] == "a":
                for pl in rvalue_places(st[2]):
                    for e in place_proj(pl):
                        if isinstance(e, list) and e[0] == "f" and e[3].endswith("LexerTerminal"):
                            used.add(e[2])
        for c in f.calls():
            for a in c.args:
                pl = op_place(a)
                if pl is not None:
                    for e in place_proj(pl):
                        if isinstance(e, list) and e[0] == "f" and e[3].endswith("LexerTerminal"):
                            used.add(e[2])
        return used

    _consumes = {}

    def consumes_terminal(path, depth=0):
        """Does the routine, given a whole terminal, use all three of its text-carrying fields (itself, or by handing the
        terminal whole to a routine that does)?"""
        if path in _consumes:
            return _consumes[path]
        _consumes[path] = False
        g = F.fns.get(path)
        if g is None or not g.body or depth > 3:
            return False
        params = [i for i in range(1, g.argc + 1) if (g.local_ty(i) or "").startswith("cairo_lang_parser::lexer::LexerTerminal")]
        if not params:
            return False
        ok = TEXT_FIELDS <= terminal_fields_used(g)
        if not ok:
            fl = g.flows_to(params[0])
            ok = any(consumes_terminal(x.path, depth + 1) for x in g.calls() if any(op_local(a) in fl for a in x.args))
        _consumes[path] = ok
        return ok

    n_final = 0
    for p, cs in sorted(tr_callers.items()):
        f = F.fns[p]
        ctx.analysed(f)
        for n_, c in enumerate(cs):
            T = place_local(c.dest)
            fl = f.flows_to(T)
            whole_to = [x for x in f.calls() if x.path != c.path and any(op_local(a) in fl and not place_proj(op_place(a)) for a in x.args
                                                                          if op_place(a) is not None) and consumes_terminal(x.path)]
            got = set()
            for x in f.calls():
                if x.name() in ("extend", "push") and x.args and "f:pending_trivia" in op_prov(f, x.args[0], 8):
                    toks = set()
                    for a in x.args[1:]:
                        toks |= op_prov(f, a, 10)
                        if op_local(a) in fl:
                            toks.add("flow")
                    if "flow" in toks:
                        for fld in TEXT_FIELDS:
                            if "f:" + fld in toks:
                                got.add(fld)
                        if "c:new_green" in toks:
                            got.add("text")
            ok = bool(whole_to) or got == TEXT_FIELDS
            ctx.ob("R10.3", "%s|take_raw#%d" % (fn_key(p), n_ + 1), ok,
                   "the taken terminal is handed whole to %s, which uses its leading trivia, text and trailing trivia" % "/".join(sorted(set(last_seg(x.path) for x in whole_to)))
                   if whole_to else "fields reaching the pending trivia: %s" % sorted(got), c.where())
    for path, ok in sorted(_consumes.items()):
        if ok:
            n_final += 1
            g = F.fns[path]
            ctx.analysed(g)
            ctx.ob("R10.3", last_seg(path) + ":uses-all-text-fields", True,
                   "a routine that receives a whole terminal consumes its three text-carrying fields (%s)" % sorted(terminal_fields_used(g) & TEXT_FIELDS or ["via a callee"]), g.where())
    ctx.floor("routines consuming a whole lexer terminal", n_final, 1)
    clones = [c for p, f in F.fns.items() if p.startswith(PARSER) and f.body for c in f.calls()
              if c.name() == "clone" and c.args and "LexerTerminal" in f.local_ty(op_local(c.args[0]) or 0)]
    eof_ok = all(last_seg(c.fn.root) in ("parse_syntax_file", "parse_file_expr", "parse_token_stream_expr", "parse_file_statement_list",
                                          "parse_token_stream") for c in clones)
    ctx.ob("R10.3", "no-terminal-clone", eof_ok,
           "LexerTerminal is cloned only for the end-of-file terminal in the file-level entry points: %s" % sorted(set(last_seg(c.fn.root) for c in clones)), "")

    # ---------------- R10.4 pending trivia is append-only until attached
    methods = Counter()
    takes = []
    bad = []
    for p, f in F.fns.items():
        if not f.body or f.crate != "cairo_lang_parser":
            continue
        for c in f.calls():
            if c.args and "f:pending_trivia" in op_prov(f, c.args[0], 4) and f.local_ty(op_local(c.args[0]) or 0).startswith("&"):
                nm = c.name()
                methods[nm] += 1
                if nm == "take":
                    takes.append(last_seg(f.root))
                if nm in ("clear", "truncate", "pop", "drain", "remove", "swap_remove", "retain", "split_off", "insert", "reverse", "sort", "dedup"):
                    bad.append((nm, c.where()))
        for f2, rv, line, how in []:
            pass
    writes = [w for w in field_writes(F, PARSER, "pending_trivia") if w[3] == "assign"]
    ctx.ob("R10.4", "pending_trivia:methods", not bad and not writes,
           "methods applied to pending_trivia: %s; direct assignments: %d" % (dict(methods), len(writes)), "")
    # ... or taken aside and re-queued: the same value is appended to pending_trivia again before every return (skipped
    # nodes that were taken earlier are put in front of what is pending)
    requeued = set()
    for nm_ in set(takes) - {"add_trivia_to_terminal"}:
        for f_ in [g for g in F.fns.values() if g.body and g.crate == "cairo_lang_parser" and last_seg(g.root) == nm_ and g.kind != "Closure"]:
            back = [c for c in f_.calls() if c.name() in ("extend", "append") and len(c.args) == 2 and "f:pending_trivia" in op_prov(f_, c.args[0], 4)
                    and "c:take" in op_prov(f_, c.args[1], 8)]
            if back and all(any(f_.dominates(c.bb, r) for c in back) for r in f_.return_blocks()):
                requeued.add(nm_)
    ctx.ob("R10.4", "pending_trivia:taken-only-when-attached", "add_trivia_to_terminal" in takes and set(takes) - {"add_trivia_to_terminal"} <= requeued,
           "mem::take(pending_trivia) occurs in %s (attached in add_trivia_to_terminal%s)" % (
               sorted(set(takes)), "; re-queued before every return in %s" % sorted(requeued) if requeued else ""), "")
    att = F.find1(PARSER, name="add_trivia_to_terminal")
    # the taken pending trivia is extended with the terminal's own leading trivia (pending first)
    ok = False
    for c in att.calls():
        if c.name() == "extend" and len(c.args) == 2:
            t0, t1 = op_prov(att, c.args[0], 8), op_prov(att, c.args[1], 8)
            if "c:take" in t0 and "f:leading_trivia" in t1:
                ok = True
    ctx.ob("R10.4", "add_trivia_to_terminal:pending-before-leading", ok, "pending trivia is prepended: pending.extend(leading_trivia)", att.where())

    # ---------------- R10.6 green caches of the parser are keyed by the exact source text
    import re as _re
    padt = F.adts.get(PARSER)
    n_cache = 0
    for name, ty in (padt["variants"][0]["fields"] if padt else []):
        m = _re.match(r"^cairo_lang_utils::(unordered|ordered)_hash_map::\w+<(.+), ([\w:]+Green<[^>]*>)(, .*)?>$", ty)
        if not m:
            continue
        n_cache += 1
        key_ty = m.group(2)
        text_key = key_ty in ("&'a str", "&str", "alloc::string::String", "smol_str::SmolStr", "cairo_lang_filesystem::ids::SmolStrId<'a>")
        ctx.ob("R10.6", "cache:%s:key-is-text" % name, text_key,
               "green cache `%s` is keyed by `%s` (%s)" % (name, key_ty, "the source text itself" if text_key else
                                                              "NOT the text: two different texts can share a node"), "%s:%s" % (padt["file"], padt["line"]))
        # the key used at the lookup is sliced out of the input by the node's span
        for p, f in F.fns.items():
            if not f.body or not p.startswith(PARSER):
                continue
            for c in f.calls():
                if c.name() in ("entry", "get", "insert", "get_mut", "contains_key") and c.args and ("f:" + name) in op_prov(f, c.args[0], 6):
                    toks = op_prov(f, c.args[1], 10) if len(c.args) > 1 else set()
                    ctx.ob("R10.6", "cache:%s:lookup-key@%s" % (name, last_seg(p)), "c:take" in toks and "f:text" in toks,
                           "the lookup key is the text of the span (TextSpan::take(self.text)): %s" % sorted(x for x in toks if x[0] in "cf")[:6], c.where())
    ctx.floor("green caches of the parser", n_cache, 1)

    # ---------------- R10.5 width = sum of children
    n_nodes = n_ok = 0
    badw = []
    for p, f in F.fns.items():
        if not f.body or f.crate != "cairo_lang_syntax" or f.d.get("derived"):
            continue   # derived Clone/Deserialize copy an existing node field by field
        for i, j, st in f.stmts():
            if st[0] == "a" and st[2][0] == "agg" and st[2][1] == "adt" and st[2][2].endswith("green::GreenNodeDetails") and st[2][4] == "Node":
                n_nodes += 1
                ops = dict(zip(st[2][5], st[2][3]))
                tw = op_prov(f, ops["width"], 10)
                tc = op_prov(f, ops["children"], 10)
                if "c:sum" in tw:
                    # same source collection: the children operand and the summed iterator share an origin
                    wl, cl = op_local(ops["width"]), op_local(ops["children"])
                    shared = (f.derives_from(wl) & f.derives_from(cl)) - {0} if wl is not None and cl is not None else set()
                    shared = set(x for x in shared if not f.local_ty(x).startswith("&'db dyn") and "Database" not in f.local_ty(x))
                    ok = bool(shared)
                elif "c:default" in tw or tw <= {"k:0"}:
                    # zero width: the children must be empty or all `missing()` nodes (themselves of zero width)
                    calls = set(t for t in tc if t.startswith("c:"))
                    args = set(t for t in tc if t.startswith("arg:"))
                    ok = calls <= {"c:missing", "c:into", "c:from", "c:into_iter", "c:collect", "c:default", "c:new"} and args <= {"arg:1"}
                else:
                    ok = False
                if ok:
                    n_ok += 1
                else:
                    badw.append((fn_key(p), f.where(st[3])))
    ctx.floor("GreenNodeDetails::Node constructions", n_nodes, 400)
    for k, w in badw[:20]:
        ctx.ob("R10.5", "width:" + k, False, "node width is not the sum over the children it stores (nor the empty default)", w)
    ctx.ob("R10.5", "width=sum(children)", not badw, "%d of %d node constructions have width = sum over their own children / empty default" % (n_ok, n_nodes), "")
    gw = F.find1("cairo_lang_syntax::node::green::GreenNode", name="width")
    ctx.ob("R10.5", "token-width=len(text)", any(c.name() == "from_str" for c in gw.calls()), "a token's width is TextWidth::from_str(text)", gw.where())
    _handed_on(ctx, F)
    _rerooting(ctx, F)
    _trivia_order(ctx, F)
    _controls(ctx, F)


def _load_drop_exceptions():
    path = os.path.join(os.path.dirname(os.path.abspath(__file__)), "..", "tables", "c10_drop_exceptions.tsv")
    ex = {}
    if os.path.exists(path):
        for line in open(path, encoding="utf-8"):
            line = line.rstrip("\n")
            if not line or line.startswith("#"):
                continue
            k, reason = line.split("\t", 1)
            ex[k] = reason
    return ex


def _handed_on(ctx, F):
    """R10.7: consumed greens are handed on along every path."""
    from . import greenflow as G
    ex = _load_drop_exceptions()
    used_ex = set()
    n_orig = n_param = n_fns = n_single = 0
    helpers = set()
    for p, f in sorted(F.fns.items()):
        if not f.body or f.crate != "cairo_lang_parser":
            continue
        os_ = G.origins(f) + G.param_origins(f)
        if not os_:
            continue
        n_fns += 1
        ctx.analysed(f)
        seen_keys = Counter()
        for o in os_:
            if o.call is None:
                n_param += 1
            else:
                n_orig += 1
            log = set()
            try:
                found = G.dropped_paths(f, o, log=log)
            except RuntimeError as e:
                ctx.ob("R10.7", "%s|%s|state-limit" % (fn_key(p), o.key()), False, "the path search did not finish: %s" % e, f.where(o.line()))
                continue
            helpers |= {x[1] for x in log if x[0] == "green-to-green helper"}
            base = "%s|%s" % (fn_key(p), o.key())
            seen_keys[base] += 1
            if seen_keys[base] > 1:
                base += "#%d" % seen_keys[base]
            # R10.9: ... and is not handed on twice along one path
            try:
                dup = G.double_handoffs(f, o)
            except RuntimeError as e:
                dup = {"state-limit": []}
            for cls, path in sorted(dup.items()):
                key = "%s|twice:%s" % (base, cls)
                if key in ex:
                    used_ex.add(key)
                    ctx.ob("R10.9", key, True, "handed on twice, accepted: %s" % ex[key], f.where(o.line()))
                    continue
                ctx.ob("R10.9", key, False,
                       "the green obtained at line %s is handed on twice along one path (%s; blocks %s): the text of the tokens it spans "
                       "would occur twice in the tree" % (o.line(), cls, "->".join("bb%s" % b for b in path[:18])), f.where(o.line()))
            if not dup:
                n_single += 1
            if not found:
                ctx.ob("R10.7", base, True, "handed on along every path to a return", f.where(o.line()))
                continue
            for cls, path in sorted(found.items()):
                key = "%s|%s" % (base, cls)
                if key in ex:
                    used_ex.add(key)
                    ctx.ob("R10.7", key, True, "not handed on, accepted: %s" % ex[key], f.where(o.line()))
                    continue
                ctx.ob("R10.7", key, False,
                       "the green obtained at line %s is dropped on a path to a return (%s; blocks %s): the text of the tokens it "
                       "spans is lost from the tree" % (o.line(), cls, "->".join("bb%s" % b for b in path[:18])), f.where(o.line()))
    for k in sorted(k for k in set(ex) - used_ex if not k.startswith("R10.8|")):
        ctx.ob("R10.7", "stale-exception:" + k, False, "exception row matches no dropped path any more (remove it)", "tables/c10_drop_exceptions.tsv")
    ctx.floor("token-consuming calls returning a green (origins)", n_orig, 400)
    ctx.floor("green parameters of parser routines", n_param, 35)
    ctx.ob("R10.9", "handed-on-at-most-once", True, "%d of %d consumed greens / green parameters are handed on at most once along every path" % (n_single, n_orig + n_param), "")
    ctx.notes.append("R10.7 analysed %d origins and %d parameters in %d functions of cairo_lang_parser" % (n_orig, n_param, n_fns))
    ctx._c10_helpers = helpers


def _children_reads(f):
    """Locals that hold a reference to the `children` of a green node (field of GreenNodeDetails::Node, or
    GreenNode::children())."""
    out = set()
    for _, _, st in f.stmts():
        if st[0] == "a" and isinstance(st[1], int):
            for pl in rvalue_places(st[2]):
                for e in place_proj(pl):
                    if isinstance(e, list) and e[0] == "f" and e[2] == "children" and e[3].endswith("green::GreenNodeDetails"):
                        out.add(st[1])
    for c in f.calls():
        if c.name() == "children" and "green::GreenNode" in c.path:
            out.add(place_local(c.dest))
    return out


def _checked_empty(F, f, sib_locals, carried_locals):
    """Is the sibling (held in one of sib_locals) tested to be a node of an `..Empty` kind - a node without children,
    of zero width - on every path on which a carried child reaches the result?"""
    kinds = F.adts.get("cairo_lang_syntax::node::kind::SyntaxKind")
    if not kinds or not sib_locals:
        return False
    names = [v["name"] for v in kinds["variants"]]
    sib = set(sib_locals)
    for c in f.calls():
        if c.name() != "long" or not c.args or c.target is None:
            continue
        a = op_local(c.args[0])
        if a is None or not ({a, f.resolve_copy(a)} & sib):
            continue
        r = place_local(c.dest)
        for bb, t in f.switches():
            info = f.switch_info(bb)
            if not info or info[0] != "disc":
                continue
            pl = info[1]
            if place_local(pl) != r or place_fields(pl) != ["kind"]:
                continue
            empty_succ, other_succ = set(), set()
            for v, sx in t[2]:
                nm = names[v] if isinstance(v, int) and v < len(names) else ""
                ng = [x for x in F.find("cairo_lang_syntax::node::ast::" + nm + "::", name="new_green")] if nm.endswith("Empty") else []
                if nm.endswith("Empty") and ng and all(x.argc == 1 for x in ng):
                    empty_succ.add(sx)
                else:
                    other_succ.add(sx)
            other_succ.add(t[3])
            other_succ -= empty_succ
            if not empty_succ:
                continue
            # blocks in which a carried child is put into the result
            prod = set()
            fl = set()
            for l in carried_locals:
                fl |= set(f.flows_to(l)) | {l}
            for i, j, st in f.stmts():
                if st[0] == "a" and place_local(st[1]) == 0 and any(place_local(x) in fl for x in rvalue_places(st[2])):
                    prod.add(i)
            for c2 in f.calls():
                if place_local(c2.dest) == 0 and any(op_local(x) in fl for x in c2.args):
                    prod.add(c2.bb)
            if not prod:
                continue
            reach_other = set()
            for o in other_succ:
                reach_other |= f.reachable_blocks(o, avoid=[bb])
            if not (prod & reach_other):
                return True
    return False


def _rerooting(ctx, F):
    """R10.8: a routine whose result is derived from one child of an existing node accounts for all siblings."""
    n_fns = 0
    n_rr = 0
    for p, f in sorted(F.fns.items()):
        if not f.body or f.crate != "cairo_lang_parser":
            continue
        roots = _children_reads(f)
        if not roots:
            continue
        n_fns += 1
        ctx.analysed(f)
        from .greenflow import mentions_green
        # what the routine produces: its return value, and greens it hands to constructors
        produced = set(f.derives_from(0)) if mentions_green(f.local_ty(0)) else set()
        for c in f.calls():
            if c.name() == "new_green":
                for a in c.args:
                    l = op_local(a)
                    if l is not None:
                        produced |= set(f.derives_from(l)) | {l}
        # element reads `x = (*slice)[const i]`
        reads = defaultdict(dict)   # slice local -> {index: [dest locals]}
        for _, _, st in f.stmts():
            if st[0] == "a" and isinstance(st[1], int) and st[2][0] in ("use", "ref"):
                pl = op_place(st[2][1]) if st[2][0] == "use" else st[2][1]
                if pl is None or isinstance(pl, int):
                    continue
                base = place_local(pl)
                if not (set(f.derives_from(base)) | {base}) & roots:
                    continue
                for e in place_proj(pl):
                    if isinstance(e, list) and e[0] == "ci":
                        reads[base].setdefault(e[1], []).append(st[1])
        ordinal = 0
        for sl, idx in sorted(reads.items()):
            ordinal += 1
            carried = {i for i, ls in idx.items() if any(l in produced for l in ls)}
            if not carried:
                continue          # the children are only inspected
            n_rr += 1
            # the slice length the code insisted on: `PtrMetadata(slice) == const n`
            n = None
            from .lib import operand_scalar
            meta = {st[1] for _, _, st in f.stmts() if st[0] == "a" and st[2][0] == "un" and st[2][1] == "PtrMetadata"
                    and op_local(st[2][2]) == sl}
            for _, _, st in f.stmts():
                if st[0] == "a" and st[2][0] == "bin" and st[2][1] == "Eq":
                    for other, kop in ((st[2][2], st[2][3]), (st[2][3], st[2][2])):
                        k = operand_scalar(f, kop)
                        ol = op_local(other)
                        if isinstance(k, int) and ol is not None and (ol in meta or f.resolve_copy(ol) in meta):
                            n = k
            key = "%s|children#%d" % (fn_key(p), ordinal)
            if n is None:
                ctx.ob("R10.8", key + "|len-unknown", False, "a child of an existing node flows into the result but the number of its siblings is not fixed by a length check", f.where())
                continue
            missing = [i for i in range(n) if i not in carried]
            proven_empty = [i for i in missing if _checked_empty(F, f, idx.get(i, []), [l for i2 in carried for l in idx[i2]])]
            missing = [i for i in missing if i not in proven_empty]
            if proven_empty and not missing:
                ctx.ob("R10.8", key + "|%d-of-%d" % (len(carried), n), True,
                       "the result is built from child(ren) %s of a node with %d children; sibling(s) %s are checked to be of an empty (zero-width) kind before the result is produced" % (
                           sorted(carried), n, proven_empty), f.where())
                continue
            exk = "R10.8|" + key + "|%d-of-%d" % (len(carried), n)
            ex = _load_drop_exceptions()
            if missing and exk in ex:
                ctx.ob("R10.8", key + "|%d-of-%d" % (len(carried), n), True, "sibling(s) %s not carried, accepted: %s" % (missing, ex[exk]), f.where())
                continue
            ctx.ob("R10.8", key + "|%d-of-%d" % (len(carried), n), not missing,
                   "the result is built from child(ren) %s of a node with %d children%s" % (
                       sorted(carried), n, "" if not missing else "; sibling(s) %s are left out: their text is dropped when the result replaces the node" % missing),
                   f.where())
    helpers = getattr(ctx, "_c10_helpers", set())
    for h in sorted(helpers):
        hf = F.fns.get(h) or next((x for x in F.fns.values() if x.path == h), None)
        ctx.ob("R10.8", "helper-analysed:" + fn_key(h), hf is not None and bool(_children_reads(hf)) if hf is not None else False,
               "green-to-green helper used by R10.7 as value-preserving is covered by the sibling accounting", hf.where() if hf else "")
    ctx.floor("routines reading the children of a green node", n_fns, 3)
    ctx.floor("re-rooting sites", n_rr, 1)


def _trivia_order(ctx, F):
    """R10.10 / R10.11: delayed skips keep the pending trivia in source order."""
    from . import trivia_order as TO
    S = TO.Summaries(F)
    sinks = {p: v for p, v in S.SINK.items() if v}
    n_sites = n_clean = 0
    for p, f in sorted(S.fns.items()):
        try:
            res = TO.analyse(S, f, F)
        except RuntimeError as e:
            ctx.ob("R10.10", "%s|state-limit" % fn_key(p), False, "the path search did not finish: %s" % e, f.where())
            continue
        if res:
            ctx.analysed(f)
        seen_keys = Counter()
        for o, skips, keeps in res:
            base = "%s|%s" % (fn_key(p), o.key())
            seen_keys[base] += 1
            if seen_keys[base] > 1:
                base += "#%d" % seen_keys[base]
            by_sink = {}
            for (sink, dirt), path in skips.items():
                by_sink.setdefault(sink, {})
                for src in dirt:
                    by_sink[sink].setdefault(src, path)
                if not dirt:
                    by_sink[sink].setdefault(None, path)
            for sink, srcs in sorted(by_sink.items()):
                n_sites += 1
                dirty = sorted(x for x in srcs if x is not None)
                if not dirty:
                    n_clean += 1
                    ctx.ob("R10.10", "%s|%s|in-order" % (base, sink), True,
                           "skipped with nothing consumed after it pending on every path", f.where(o.line()))
                for src in dirty:
                    ctx.ob("R10.10", "%s|%s|after:%s" % (base, sink, src), False,
                           "the node taken at line %s is pushed on the pending trivia by %s although trivia consumed after its first token "
                           "may already be pending (left by %s; blocks %s): the skipped text is re-attached in front of the node, out of "
                           "source order" % (o.line(), sink, src, "->".join("bb%s" % b for b in srcs[src][:18])), f.where(o.line()))
            for (keeper, old), path in sorted(keeps.items(), key=str):
                ctx.ob("R10.11", "%s|kept-by:%s|after:%s" % (base, keeper, old), False,
                       "the node taken at line %s is kept in the tree (%s) after the older node of %s was pushed on the pending trivia: the "
                       "older node's text is attached behind it (blocks %s)" % (o.line(), keeper, old, "->".join("bb%s" % b for b in path[:18])),
                       f.where(o.line()))
    ctx.ob("R10.11", "kept-nodes-precede-no-older-skip", True,
           "%d delayed-skip sites analysed; a node that stays in the tree is never preceded by the delayed skip of an older node, "
           "except as listed" % n_sites, "")
    ctx.floor("routines that push a parameter on the pending trivia (delayed-skip sinks)", len(sinks), 1)
    ctx.floor("delayed-skip sites (origin, sink)", n_sites, 6)
    ctx.floor("parser routines summarised for pending trivia", len(S.routines), 100)
    ctx.floor("routines that may return with own trivia pending", sum(S.D.values()), 40)
    ctx.floor("routines that always flush the pending trivia", sum(S.MF.values()), 20)
    push_r = [p for p in S.pushers if p in S.routines]
    ctx.control("every routine that pushes on pending_trivia is a sink or may leave trivia pending",
                bool(push_r) and all(S.D[p] or S.SINK[p] for p in push_r) and bool(S.flushers))
    ctx.notes.append("R10.10 summaries: %d routines, sinks %s, %d may leave trivia pending, %d always flush; %d delayed-skip sites, %d in order" % (
        len(S.routines), sorted(last_seg(p) for p in sinks), sum(S.D.values()), sum(S.MF.values()), n_sites, n_clean))


def _controls(ctx, F):
    import copy
    from .lib import Fn
    f = F.find1(PARSER, name="skip_until")
    d = copy.deepcopy(f.d)
    n = 0
    for bl in d["body"]["blocks"]:
        t = bl["t"]
        if t[0] == "call" and t[1].get("path", "").endswith("::extend") and n == 0:
            t[1]["path"] = t[1]["path"].replace("::extend", "::clear")
            n += 1
    m = Fn(d, f.crate)
    got = [c.name() for c in m.calls() if c.args and "f:pending_trivia" in op_prov(m, c.args[0], 4)]
    ctx.control("pending_trivia.clear() in skip_until", "clear" in got)
    # R10.7: a parser routine that no longer forwards one of its green parameters
    from . import greenflow as G
    f = F.find1(PARSER, name="parse_item_inline_macro_given_bang")
    d = copy.deepcopy(f.d)
    hit = 0
    for bl in d["body"]["blocks"]:
        for st in bl["s"]:
            if st[0] == "a" and st[2][0] == "use" and op_local(st[2][1]) == 3 and isinstance(st[1], int):
                st[2][1] = ["k", "int", 0]
                hit += 1
    m = Fn(d, f.crate)
    dropped = [o for o in G.param_origins(m) if o.param == 3 and G.dropped_paths(m, o)]
    clean = [o for o in G.param_origins(f) if G.dropped_paths(f, o)]
    ctx.control("parameter `path` of parse_item_inline_macro_given_bang no longer forwarded", hit > 0 and bool(dropped) and not clean)

