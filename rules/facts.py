"""Fact extraction and caching.

Runs the cairo-facts rustc driver over the workspace of the repository under analysis
(VERIF_REPO, default /repo) and stores the JSON-lines fact base under
/verif/.cache/facts/<tree-hash>/.  The hash covers the content of every file cargo reads, so
any edit to the tree forces a re-extraction from the current working tree.
"""
import fcntl
import hashlib
import json
import os
import shutil
import subprocess
import sys
import tempfile
import time

VERIF = os.path.dirname(os.path.dirname(os.path.abspath(__file__)))
CACHE = os.path.join(VERIF, ".cache")
DRIVER = os.path.join(VERIF, "engine", "target", "release", "cairo-facts")
HASH_EXT = (".rs", ".toml", ".lalrpop", ".lock")


class CheckBroken(Exception):
    pass


def repo_root():
    return os.path.abspath(os.environ.get("VERIF_REPO", "/repo"))


def _list_files(repo):
    files = []
    if os.path.isdir(os.path.join(repo, ".git")) or os.path.isfile(os.path.join(repo, ".git")):
        try:
            out = subprocess.run(
                ["git", "-C", repo, "ls-files", "-c", "-o", "--exclude-standard", "-z"],
                capture_output=True, check=True).stdout.decode("utf-8", "replace")
            files = [f for f in out.split("\0") if f]
        except Exception:
            files = []
    if not files:
        for dp, dn, fn in os.walk(repo):
            dn[:] = [d for d in dn if d not in ("target", ".git")]
            for f in fn:
                files.append(os.path.relpath(os.path.join(dp, f), repo))
    keep = []
    for f in files:
        if f.startswith("target/"):
            continue
        if f.endswith(HASH_EXT) or f == "Cargo.lock":
            keep.append(f)
    return sorted(set(keep))


def tree_hash(repo):
    h = hashlib.sha256()
    # the driver itself is part of the key: a rebuilt driver must not reuse old facts
    try:
        st = os.stat(DRIVER)
        h.update(("driver:%d:%d" % (st.st_size, int(st.st_mtime))).encode())
    except OSError:
        pass
    for f in _list_files(repo):
        p = os.path.join(repo, f)
        try:
            with open(p, "rb") as fh:
                data = fh.read()
        except OSError:
            continue
        h.update(f.encode())
        h.update(b"\0")
        h.update(hashlib.sha256(data).digest())
    return h.hexdigest()[:24]


def _workspace_members(repo):
    out = subprocess.run(
        ["cargo", "+nightly", "metadata", "--offline", "--no-deps", "--format-version", "1"],
        cwd=repo, capture_output=True, check=True, env=_env()).stdout
    meta = json.loads(out)
    targets = []
    for p in meta["packages"]:
        for t in p["targets"]:
            if t["kind"][0] in ("lib", "bin", "proc-macro"):
                targets.append((p["name"], t["name"].replace("-", "_")))
    return targets


def _env():
    env = dict(os.environ)
    env["CARGO_NET_OFFLINE"] = "true"
    env.pop("RUSTC_WRAPPER", None)
    return env


def ensure_driver():
    if not os.path.exists(DRIVER):
        r = subprocess.run([os.path.join(VERIF, "bin", "setup")], capture_output=True, text=True)
        if r.returncode != 0 or not os.path.exists(DRIVER):
            raise CheckBroken("driver build failed: " + r.stderr[-2000:])


def ensure_facts(log=sys.stderr):
    """Returns (facts_dir, info). Extracts if the cache has no entry for the current tree."""
    repo = repo_root()
    ensure_driver()
    os.makedirs(os.path.join(CACHE, "facts"), exist_ok=True)
    lock = open(os.path.join(CACHE, "lock"), "w")
    fcntl.flock(lock, fcntl.LOCK_EX)
    try:
        th = tree_hash(repo)
        out = os.path.join(CACHE, "facts", th)
        done = os.path.join(out, "DONE.json")
        if os.path.exists(done):
            info = json.load(open(done))
            info["cached"] = True
            return out, info
        if os.path.exists(out):
            shutil.rmtree(out)
        t0 = time.time()
        info = _extract(repo, out, log)
        info["tree_hash"] = th
        info["extract_s"] = round(time.time() - t0, 1)
        json.dump(info, open(done, "w"))
        _prune(keep=th)
        info["cached"] = False
        return out, info
    finally:
        fcntl.flock(lock, fcntl.LOCK_UN)
        lock.close()


def _prune(keep):
    base = os.path.join(CACHE, "facts")
    ents = [(os.path.getmtime(os.path.join(base, d)), d) for d in os.listdir(base)]
    ents.sort(reverse=True)
    for _, d in ents[8:]:
        if d != keep:
            shutil.rmtree(os.path.join(base, d), ignore_errors=True)


def _extract(repo, out, log):
    sysroot = subprocess.run(["rustc", "+nightly", "--print", "sysroot"], capture_output=True,
                             text=True, check=True, env=_env()).stdout.strip()
    members = _workspace_members(repo)
    tmp_out = out + ".tmp"
    if os.path.exists(tmp_out):
        shutil.rmtree(tmp_out)
    os.makedirs(tmp_out)
    # A persistent target dir keeps the external dependencies' metadata; the workspace members'
    # fingerprints are deleted so that cargo re-runs the wrapper for every member.
    target = os.path.join(CACHE, "target")
    fresh = not os.path.isdir(target)

    def run(target_dir):
        env = _env()
        env.update({
            "LD_LIBRARY_PATH": sysroot + "/lib",
            "RUSTFLAGS": "-Zmir-opt-level=0 -Awarnings",
            "RUSTC_WORKSPACE_WRAPPER": DRIVER,
            "VERIF_FACTS_DIR": tmp_out,
            "CARGO_TARGET_DIR": target_dir,
            "RUSTC_ICE": "0",
            "CARGO_INCREMENTAL": "0",
        })
        return subprocess.run(
            ["cargo", "+nightly", "check", "--offline", "--workspace", "--lib", "--bins",
             "--message-format", "short"],
            cwd=repo, env=env, capture_output=True, text=True)

    def clear_member_fingerprints(target_dir):
        fp = os.path.join(target_dir, "debug", ".fingerprint")
        if not os.path.isdir(fp):
            return
        pkgs = set(p for p, _ in members)
        for d in os.listdir(fp):
            name = d.rsplit("-", 1)[0]
            if name in pkgs:
                shutil.rmtree(os.path.join(fp, d), ignore_errors=True)

    if not fresh:
        clear_member_fingerprints(target)
    r = run(target)
    missing = _missing(tmp_out, members)
    if r.returncode == 0 and missing:
        # stale target directory: retry once from scratch
        shutil.rmtree(target, ignore_errors=True)
        for f in os.listdir(tmp_out):
            os.unlink(os.path.join(tmp_out, f))
        r = run(target)
        missing = _missing(tmp_out, members)
    if r.returncode != 0:
        shutil.rmtree(tmp_out, ignore_errors=True)
        tail = "\n".join(l for l in r.stderr.splitlines() if "Compiling" not in l and "Checking" not in l)[-3000:]
        raise CheckBroken("the tree under analysis does not build under cargo +nightly check:\n" + tail)
    if missing:
        shutil.rmtree(tmp_out, ignore_errors=True)
        raise CheckBroken("no fact file for workspace targets: %s" % ", ".join(sorted(missing)))
    # workspace crate dependency closure (used to restrict class-hierarchy resolution of trait calls)
    try:
        meta = json.loads(subprocess.run(
            ["cargo", "+nightly", "metadata", "--offline", "--format-version", "1"],
            cwd=repo, capture_output=True, check=True, env=_env()).stdout)
        names = {p["id"]: p["name"].replace("-", "_") for p in meta["packages"]}
        ws = set(meta["workspace_members"])
        direct = {}
        for n in meta["resolve"]["nodes"]:
            direct[n["id"]] = [d["pkg"] for d in n.get("deps", [])]
        deps = {}
        for m in ws:
            seen, stack = set(), [m]
            while stack:
                x = stack.pop()
                for d in direct.get(x, []):
                    if d not in seen:
                        seen.add(d)
                        stack.append(d)
            deps[names[m]] = sorted(set(names[d] for d in seen if d in ws))
        json.dump(deps, open(os.path.join(tmp_out, "deps.json"), "w"))
    except Exception:
        pass
    files = sorted(os.listdir(tmp_out))
    size = sum(os.path.getsize(os.path.join(tmp_out, f)) for f in files)
    os.rename(tmp_out, out)
    return {"files": len(files), "bytes": size, "members": len(members), "repo": repo}


def _missing(d, members):
    have = set(f.rsplit("-", 1)[0] for f in os.listdir(d) if f.endswith(".jsonl"))
    return set(t for _, t in members) - have
