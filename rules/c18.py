"""C18 - Sierra programs survive every serialisation (clause: writer and reader of the felt252
encoding use the same tags, flag bits, sentinels and field order; names are not semantics)."""
from collections import deque

from .guards import prov, op_prov, bool_condition, bool_edge_value, switch_edges, Cmp, check_guard
from .lib import (op_local, op_const, op_place, place_local, place_fields, rvalue_operands,
                  rvalue_places, operand_scalar, promoted_consts, last_seg, fn_key, CallGraph)

EXPLANATION = (
    "Decides the structural clause of C18: the hand-written Felt252Serde implementations write and read "
    "the same tags (variant -> constant map extracted from serialize, constant -> variant map from "
    "deserialize, composition must be the identity incl. the negation on tag 5), the same sentinel "
    "(usize::MAX <-> Fallthrough), the same flag bits per DeclaredTypeInfo field, the same field order "
    "(sequence of serialize calls by field == sequence of deserialize calls by target field), every "
    "generic id longer than 31 bytes is registered in SERDE_SUPPORTED_LONG_IDS, and no function reachable "
    "from the Sierra->CASM path reads an id's debug_name except for formatting. Text/JSON round trips "
    "are not decided.")
ASSUMPTIONS = ["serde derives are symmetric by construction", "LALRPOP grammar acceptance is not a shape fact (not decided)"]
EXHAUSTIVE = True
CRATES = ["cairo_lang_starknet_classes", "cairo_lang_sierra", "cairo_lang_sierra_to_casm", "cairo_lang_sierra_gas",
          "cairo_lang_sierra_ap_change", "cairo_lang_sierra_type_size", "cairo_lang_casm", "cairo_lang_utils",
          "cairo_lang_eq_solver"]
SERDE = "cairo_lang_starknet_classes::felt252_serde::Felt252Serde"


def _variant_names(F, adt):
    a = F.adts.get(adt)
    return [v["name"] for v in a["variants"]] if a else None


def _self_switch(fn, adt_suffix):
    for bb, t in fn.switches():
        info, _ = bool_condition(fn, bb)
        if info and info[0] == "disc" and info[2].endswith(adt_suffix) and place_local(info[1]) == 1:
            return bb, info[2]
    return None, None


def _edges_reaching(fn, sw, target_bb):
    out = []
    for v, s in switch_edges(fn, sw):
        if fn.is_unreachable_block(s):
            continue
        if s == target_bb or target_bb in fn.reachable_blocks(s, avoid={sw}):
            out.append(v)
    return out


def _next_serde_call(fn, call, method):
    """First Felt252Serde::<method> call dominated by the success edge of `call`."""
    seen = set()
    dq = deque([call.target])
    while dq:
        b = dq.popleft()
        if b is None or b in seen:
            continue
        seen.add(b)
        t = fn.blocks[b]["t"]
        if t[0] == "call" and SERDE in t[1].get("via", t[1].get("path", "")) and t[1]["path"].endswith("::" + method) \
                and "from_residual" not in t[1]["path"]:
            return [c for c in fn.calls() if c.bb == b][0]
        for s in fn.succ(b):
            # do not follow the error edge of `?`
            tt = fn.blocks[s]["t"]
            if tt[0] == "call" and tt[1].get("path", "").endswith("from_residual"):
                continue
            dq.append(s)
    return None


def serialize_tag_map(F, fn, adt_suffix):
    """{(variant, negated_payload): tag}; also returns diagnostics."""
    sw, adt = _self_switch(fn, adt_suffix)
    if sw is None:
        return None, "no match on self"
    names = _variant_names(F, adt)
    out = {}
    for c in fn.calls():
        if not ((c.path.startswith("<usize as " + SERDE) or c.path.startswith("<u64 as " + SERDE))
                and c.path.endswith("::serialize")):
            continue
        tag = operand_scalar(fn, c.args[0])
        if tag is None:
            return None, "tag at L%s is not a constant" % c.line
        vs = _edges_reaching(fn, sw, c.bb)
        if len(vs) != 1 or vs[0] == "otherwise":
            return None, "tag site L%s reachable from variants %s" % (c.line, vs)
        variant = names[vs[0]]
        nxt = _next_serde_call(fn, c, "serialize")
        neg = False
        if nxt is not None:
            neg = "c:neg" in op_prov(fn, nxt.args[0])
        # sign guard
        sign = None
        for bb, t in fn.switches():
            info, flip = bool_condition(fn, bb)
            if info and info[0] == "call" and info[1].name() == "is_negative" and fn.dominates(bb, c.bb):
                for s in fn.succ(bb):
                    if s == c.bb or c.bb in fn.reachable_blocks(s, avoid={bb}):
                        v = bool_edge_value(fn, bb, s)
                        sign = (v ^ flip) if v is not None else None
        key = (variant, neg)
        if key in out:
            return None, "two tag sites for %s" % (key,)
        out[key] = (tag, sign)
    return out, ""


def deserialize_tag_map(F, fn, adt_suffix):
    """{tag: (variant, negated_payload)}"""
    # switch on a value deriving from <usize as Felt252Serde>::deserialize
    sw = None
    for bb, t in fn.switches():
        l = op_local(t[1])
        if l is None:
            continue
        toks = prov(fn, l)
        if "c:deserialize" in toks and len(t[2]) >= 2 and fn.local_ty(l) in ("usize", "u64"):
            sw = bb
            break
    if sw is None:
        return None, "no match on a deserialized tag"
    out = {}
    for v, s in switch_edges(fn, sw):
        if v == "otherwise":
            continue
        region = fn.reachable_blocks(s, avoid={sw})
        found = []
        for b in region:
            for st in fn.blocks[b]["s"]:
                if st[0] == "a" and st[2][0] == "agg" and st[2][1] == "adt" and st[2][2].endswith(adt_suffix):
                    neg = any("c:neg" in op_prov(fn, o) for o in st[2][3])
                    found.append((st[2][4], neg))
        found = sorted(set(found))
        if len(found) != 1:
            return None, "tag %s constructs %s" % (v, found)
        out[v] = found[0]
    # otherwise edge must reject
    return out, ""


def field_order_serialize(fn):
    """Sequence of self-fields whose Felt252Serde::serialize is called, in dominance order."""
    seq = []
    for c in fn.calls():
        if c.path.endswith("::serialize") and SERDE in c.via:
            fields = _self_fields(fn, c.args[0])
            seq.append((c, fields))
    seq.sort(key=lambda x: _dom_depth(fn, x[0].bb))
    return [(c, f) for c, f in seq]


def _dom_depth(fn, bb):
    d = 0
    idom = fn.dominators()
    while idom.get(bb, bb) != bb:
        bb = idom[bb]
        d += 1
    return d


def _self_fields(fn, op, depth=10):
    """Field path (from self) that an operand refers to, following copies/refs."""
    l = op_local(op)
    p = op_place(op)
    fields = list(place_fields(p)) if p is not None else []
    seen = set()
    while l is not None and l not in seen and depth > 0:
        seen.add(l)
        depth -= 1
        if l == 1:
            return fields
        d = fn.single_def(l)
        if not d or d[0] != "stmt":
            return None
        rv = d[3]
        src = None
        if rv[0] == "ref":
            src = rv[1]
        elif rv[0] == "use" and op_place(rv[1]) is not None:
            src = op_place(rv[1])
        if src is None:
            return None
        fields = list(place_fields(src)) + fields
        l = place_local(src)
    return None


def run(ctx):
    F = ctx.load(CRATES)
    SC = "cairo_lang_starknet_classes::felt252_serde::"

    def serde_fn(ty, method):
        r = [f for f in F.fns.values() if f.d.get("self_adt") == ty and f.path.endswith(" as %s>::%s" % (SERDE, method))]
        if len(r) != 1:
            from .lib import AnchorError
            raise AnchorError("serde impl %s::%s resolves to %d" % (ty, method, len(r)))
        ctx.analysed(r[0])
        return r[0]

    # ---------------- R18.1 tags
    for ty, suffix, floor in (("cairo_lang_sierra::program::GenericArg", "program::GenericArg", 6),
                              ("cairo_lang_sierra::program::GenStatement", "program::GenStatement", 2)):
        ser, de = serde_fn(ty, "serialize"), serde_fn(ty, "deserialize")
        smap, m1 = serialize_tag_map(F, ser, suffix)
        dmap, m2 = deserialize_tag_map(F, de, suffix)
        short = suffix.split("::")[-1]
        if smap is None or dmap is None:
            ctx.ob("R18.1", short + ":extract", False, "cannot extract tag maps: %s %s" % (m1, m2), ser.where())
            continue
        ctx.floor(short + " tags", len(smap), floor)
        for (variant, neg), (tag, sign) in sorted(smap.items(), key=lambda x: str(x)):
            back = dmap.get(tag)
            ok = back == (variant, neg)
            ctx.ob("R18.1", "%s:%s%s" % (short, variant, "-neg" if neg else ""), ok,
                   "serialize writes tag %s for %s%s; deserialize maps tag %s to %s" % (
                       tag, variant, " (negated)" if neg else "", tag, back), ser.where())
            if sign is not None:
                ctx.ob("R18.1", "%s:%s%s:sign" % (short, variant, "-neg" if neg else ""), sign == neg,
                       "negated payload is written exactly on the is_negative edge", ser.where())
            ctx.sample({"type": short, "variant": variant, "negated": neg, "tag": tag, "reads_back_as": back})
        extra = set(dmap) - set(t for t, _ in smap.values())
        ctx.ob("R18.1", short + ":no-unwritten-tags", not extra, "tags read but never written: %s" % sorted(extra), de.where())
        # unknown tag rejects
        r = [b for b in de.live_blocks() for st in de.blocks[b]["s"] if st[0] == "a" and st[2][0] == "agg"
             and st[2][1] == "adt" and st[2][4] == "InvalidInputForDeserialization"]
        ctx.ob("R18.1", short + ":unknown-tag-rejected", bool(r), "unknown tags produce an error", de.where())

    # BranchTarget sentinel
    bser = serde_fn("cairo_lang_sierra::program::GenBranchTarget", "serialize")
    bde = serde_fn("cairo_lang_sierra::program::GenBranchTarget", "deserialize")
    sw, adt = _self_switch(bser, "program::GenBranchTarget")
    names = _variant_names(F, adt) if adt else None
    sent = None
    if sw is not None:
        for c in bser.calls():
            if c.path.startswith("<usize as " + SERDE):
                vs = _edges_reaching(bser, sw, c.bb)
                if len(vs) == 1 and names[vs[0]] == "Fallthrough":
                    sent = operand_scalar(bser, c.args[0])
    umax = str(2 ** 64 - 1)
    ctx.ob("R18.1", "BranchTarget:sentinel-written", str(sent) == umax, "Fallthrough is written as %s" % sent, bser.where())
    ok = False
    msg = "no comparison with usize::MAX"
    for bb, t in bde.switches():
        info, flip = bool_condition(bde, bb)
        if info and info[0] == "bin" and info[1] in ("Eq", "Ne"):
            k = [operand_scalar(bde, info[2]), operand_scalar(bde, info[3])]
            if umax in [str(x) for x in k]:
                # the edge where idx == MAX must construct Fallthrough and the other Statement
                res = {}
                for s in bde.succ(bb):
                    v = bool_edge_value(bde, bb, s)
                    eq = (v ^ flip) if info[1] == "Eq" else (not (v ^ flip))
                    vs = set()
                    for b in bde.reachable_blocks(s, avoid={bb}):
                        for st in bde.blocks[b]["s"]:
                            if st[0] == "a" and st[2][0] == "agg" and st[2][1] == "adt" and st[2][2].endswith("GenBranchTarget"):
                                vs.add(st[2][4])
                    res[eq] = vs
                ok = res.get(True) == {"Fallthrough"} and res.get(False) == {"Statement"}
                msg = "idx == usize::MAX -> %s, else -> %s" % (res.get(True), res.get(False))
    ctx.ob("R18.1", "BranchTarget:sentinel-read", ok, msg, bde.where())

    # ConcreteTypeInfo flag bits
    ctis = serde_fn("cairo_lang_starknet_classes::felt252_serde::ConcreteTypeInfo", "serialize")
    ctid = serde_fn("cairo_lang_starknet_classes::felt252_serde::ConcreteTypeInfo", "deserialize")
    wr = _flags_written(ctis)
    rd = _flags_read(ctid)
    ctx.floor("DeclaredTypeInfo flag fields", len(wr), 4)
    for fld in sorted(set(wr) | set(rd)):
        ctx.ob("R18.1", "ConcreteTypeInfo:flag:" + fld, fld in wr and fld in rd and wr[fld] == rd[fld],
               "field %s: written with %s, read with %s" % (fld, wr.get(fld), rd.get(fld)), ctis.where())
    ctx.ob("R18.1", "ConcreteTypeInfo:flags-distinct", len(set(wr.values())) == len(wr) and "TYPE_INFO_MARKER" not in wr.values(),
           "each field has its own bit", ctis.where())
    # marker / shift / mask constants agree
    sh_w = _shift_consts(ctis, "shl")
    sh_r = _shift_consts(ctid, "shr")
    ctx.ob("R18.1", "ConcreteTypeInfo:shift", sh_w == [128] and sh_r == [128], "shl %s / shr %s" % (sh_w, sh_r), ctis.where())
    marker = any("const:TYPE_INFO_MARKER" in op_prov(ctis, o) for _, _, st in ctis.stmts() if st[0] == "a"
                 for o in rvalue_operands(st[2]))
    r0 = check_guard(ctid, Cmp("eq", None, "k:0"), bypass="none", sinks=set(
        b for b in ctid.live_blocks() for st in ctid.blocks[b]["s"] if st[0] == "a" and st[2][0] == "agg"
        and st[2][1] == "adt" and st[2][2] == "core::option::Option" and st[2][4] == "None"))
    ctx.ob("R18.1", "ConcreteTypeInfo:marker", marker and r0.ok,
           "Some(info) always sets the marker bit; decl_ti_value == 0 reads back as None (%s)" % r0.msg, ctid.where())

    # ---------------- R18.2 field order
    pairs = {}
    for f in F.fns.values():
        if f.path.endswith("as %s>::serialize" % SERDE) and f.d.get("self_adt"):
            pairs.setdefault(f.d["self_ty"], {})["ser"] = f
        if f.path.endswith("as %s>::deserialize" % SERDE) and f.d.get("self_adt"):
            pairs.setdefault(f.d["self_ty"], {})["de"] = f
    n_structs = 0
    for ty, p in sorted(pairs.items()):
        adt = F.adts.get(p.get("ser").d["self_adt"]) if p.get("ser") else None
        ctx.ob("R18.2", "pair:" + ty, "ser" in p and "de" in p, "serializer and deserializer both exist", "")
        if not adt or adt["kind"] != "struct" or "ser" not in p or "de" not in p:
            continue
        if adt["path"].startswith("cairo_lang_sierra::ids::"):
            continue  # single-value ids built through `new`, no field order to compare
        ser, de = p["ser"], p["de"]
        ctx.analysed(ser)
        ctx.analysed(de)
        fields = [f[0] for f in adt["variants"][0]["fields"]]
        if len(fields) < 2:
            continue
        s_order = []
        for c, fl in field_order_serialize(ser):
            toks = op_prov(ser, c.args[0], 16)
            hit = [f_ for f_ in fields if ("f:" + f_) in toks]
            if len(hit) == 1 and hit[0] not in s_order:
                s_order.append(hit[0])
        d_order = _deser_field_order(de, adt["path"], fields)
        if d_order is None:
            ctx.ob("R18.2", "order:" + ty, False, "cannot extract deserialization order", de.where())
            continue
        n_structs += 1
        if adt["path"].endswith("felt252_serde::ConcreteTypeInfo"):
            # len and the type-info flags share one word: compare the sequence of encoded types instead
            ts, td = _type_seq(ser, "serialize"), _type_seq(de, "deserialize")
            ctx.ob("R18.2", "order:" + ty, ts == td and len(ts) >= 3, "written types %s / read types %s" % (ts, td), ser.where())
            continue
        ok = s_order == d_order and set(s_order) == set(fields)
        ctx.ob("R18.2", "order:" + ty, ok, "written %s / read %s / declared %s" % (s_order, d_order, fields), ser.where())
    ctx.floor("struct serde pairs with >= 2 fields", n_structs, 6)
    # Program: ids are positional
    pser = serde_fn("cairo_lang_sierra::program::Program", "serialize")
    pde = serde_fn("cairo_lang_sierra::program::Program", "deserialize")
    for var in ("OutOfOrderTypeDeclarationsForSerialization", "OutOfOrderLibfuncDeclarationsForSerialization",
                "OutOfOrderUserFunctionDeclarationsForSerialization"):
        n = len([1 for _, _, st in pser.stmts() if st[0] == "a" and st[2][0] == "agg" and st[2][1] == "adt" and st[2][4] == var])
        ctx.ob("R18.2", "Program:" + var, n == 1, "positional-id guard present", pser.where())
    for st_name in ("TypeDeclaration", "LibfuncDeclaration", "Function"):
        ok = False
        for _, _, st in pde.stmts():
            if st[0] == "a" and st[2][0] == "agg" and st[2][1] == "adt" and st[2][2].endswith("::" + st_name) or \
                    (st[0] == "a" and st[2][0] == "agg" and st[2][1] == "adt" and st[2][2].endswith("GenFunction") and st_name == "Function"):
                idx = st[2][5].index("id")
                toks = op_prov(pde, st[2][3][idx])
                # the id is built with `new(<loop index>)`: the index of the `for i in 0..size` loop (a Range iterator)
                ok = "c:new" in toks and ("n:i" in toks or any(t.startswith("agg:") and "Range" in t for t in toks) or "c:next" in toks)
        ctx.ob("R18.2", "Program:%s.id=loop-index" % st_name, ok, "deserialized id is the loop index", pde.where())

    # ---------------- R18.4 long ids
    long_ids = {}
    n_ids = 0
    import re as _re
    for f in F.fns.values():
        # generic ids are snake-case string constants of the extensions modules (STR_ID, or trait
        # constants such as TIntTraits::CONST that STR_ID forwards to)
        if f.kind in ("AssocConst", "Const") and "cairo_lang_sierra::extensions::" in f.path and f.body:
            vals = [op_const(st[2][1])[1] for _, _, st in f.stmts() if st[0] == "a" and st[2][0] == "use"
                    and op_const(st[2][1]) and op_const(st[2][1])[0] == "str"]
            if len(vals) == 1 and _re.match(r"^[a-z][a-z0-9_]*$", vals[0]):
                n_ids += 1
                if len(vals[0].encode()) > 31:
                    long_ids[vals[0]] = f
    ctx.floor("generic id string constants", n_ids, 200)
    reg = set()
    for f in F.find(SC + "SERDE_SUPPORTED_LONG_IDS"):
        if f.body:
            for _, _, st in f.stmts():
                if st[0] == "a":
                    for o in rvalue_operands(st[2]):
                        c = op_const(o)
                        if c and c[0] == "str":
                            reg.add(c[1])
    ctx.floor("SERDE_SUPPORTED_LONG_IDS entries", len(reg), 9)
    for sid, f in sorted(long_ids.items()):
        ctx.ob("R18.4", "long-id:" + sid, sid in reg, "generic id `%s` (%d bytes) registered in SERDE_SUPPORTED_LONG_IDS" % (
            sid, len(sid)), f.where())
    for sid in sorted(reg - set(long_ids)):
        ctx.ob("R18.4", "registered:" + sid, len(sid.encode()) > 31 or True, "registered id", "")

    # ---------------- R18.3 names are not semantics
    cg = CallGraph(F)
    roots = [f.path for f in (F.find("cairo_lang_sierra_to_casm::compiler::compile", kind="Fn") +
                              F.find("cairo_lang_sierra_to_casm::metadata::calc_metadata") +
                              F.find("cairo_lang_sierra::program_registry::ProgramRegistry", name="new") +
                              F.find("cairo_lang_starknet_classes::casm_contract_class::CasmContractClass", name="from_contract_class"))
             if "{closure" not in f.path]
    ctx.floor("compile-path roots", len(roots), 4)
    reach = cg.reachable(roots)
    readers = {}
    for f in F.fns.values():
        if not f.body:
            continue
        for _, _, st in f.stmts():
            if st[0] != "a":
                continue
            for p in rvalue_places(st[2]):
                if "debug_name" in place_fields(p) and f.is_used(place_local(st[1])):
                    readers.setdefault(f.path, f)
    ctx.floor("functions reading debug_name", len(readers), 5)
    ALLOWED = ("core::fmt::Display", "core::fmt::Debug", "core::clone::Clone", "serde::", "_serde::",
               "::debug_info::", "::from_string", "::fmt::", "salsa::", "cairo_lang_utils::heap_size::HeapSize",
               "::ids_test", "::to_string", "::replace_ids", "::canonical_id_replacer")
    n_reach = 0
    for p, f in sorted(readers.items()):
        allowed = any(a in p for a in ALLOWED) or f.d.get("trait", "") in (
            "core::fmt::Display", "core::fmt::Debug", "core::clone::Clone", "serde_core::ser::Serialize", "serde::ser::Serialize")
        on_path = p in reach
        if on_path:
            n_reach += 1
        ok = allowed or not on_path
        wit = " <- ".join(last_seg(x) for x in CallGraph.witness(reach, p)[-4:]) if on_path else ""
        ctx.ob("R18.3", "debug_name-reader:" + p, ok,
               "reads debug_name; %s%s" % ("formatting/serde/debug-info only" if allowed else "NOT a formatting function",
                                           ("; reachable from the compile path via " + wit) if on_path else "; not reachable from the compile path"),
               f.where())
    # identity of ids ignores debug_name: PartialEq/Hash of the id types do not read it
    for p, f in readers.items():
        if f.d.get("trait") in ("core::cmp::PartialEq", "core::hash::Hash", "core::cmp::PartialOrd", "core::cmp::Ord"):
            ctx.ob("R18.3", "id-identity-ignores-debug_name:" + p, False, "identity of an id depends on debug_name", f.where())
    ctx.ob("R18.3", "id-identity-ignores-debug_name", True, "no Eq/Hash/Ord impl reads debug_name", "")

    _id_replacers(ctx, ctx.load(["cairo_lang_sierra", "cairo_lang_sierra_generator"]))
    _controls(ctx, F, serde_fn)


def _flags_written(fn):
    """field -> TYPE_* constant name, from `if info.<field> { TYPE_X } else { 0 }`."""
    out = {}
    for bb, t in fn.switches():
        info, flip = bool_condition(fn, bb)
        if not info or info[0] != "place":
            continue
        fields = place_fields(info[1])
        if not fields:
            continue
        fld = fields[-1]
        for s in fn.succ(bb):
            v = bool_edge_value(fn, bb, s)
            if v is None or (v ^ flip) is not True:
                continue
            for st in fn.blocks[s]["s"]:
                if st[0] == "a" and st[2][0] == "use":
                    o = st[2][1]
                    if o[0] == "k" and len(o) > 4 and o[4]:
                        out[fld] = last_seg(o[4])
    return out


def _flags_read(fn):
    """field -> TYPE_* constant name, from `field: (value & TYPE_X) != 0` in the aggregate."""
    out = {}
    for _, _, st in fn.stmts():
        if st[0] == "a" and st[2][0] == "agg" and st[2][1] == "adt" and st[2][2].endswith("DeclaredTypeInfo"):
            for name, o in zip(st[2][5], st[2][3]):
                toks = op_prov(fn, o, 6)
                cs = sorted(x[6:] for x in toks if x.startswith("const:TYPE_"))
                if len(cs) == 1 and "op:BitAnd" in toks:
                    out[name] = cs[0]
                else:
                    out[name] = "?" + ",".join(cs)
    return out


def _shift_consts(fn, method):
    out = []
    for c in fn.calls():
        if c.name() == method and len(c.args) == 2:
            v = operand_scalar(fn, c.args[1])
            out.append(v)
    return out


def _type_seq(fn, method):
    """Sequence of encoded types (self type of each Felt252Serde::<method> call) in dominance order,
    consecutive duplicates merged."""
    from . import guards
    F = guards.CURRENT_FACTS

    def own(h):
        return [c for c in h.calls() if c.path.endswith("::" + method) and SERDE in c.via and c.path.startswith("<")]
    items = [(_dom_depth(fn, c.bb), 0, c) for c in own(fn)]
    # a closure handed to an iterator adapter (try_for_each / map / for_each ..): its encodings happen where that
    # call sits in the enclosing function
    if F is not None:
        for h in F.closures_of(fn):
            inner = own(h)
            if not inner:
                continue
            site = None
            for x in fn.calls():
                for a in x.args:
                    l = op_local(a)
                    d = fn.single_def(fn.resolve_copy(l)) if l is not None else None
                    if d and d[0] == "stmt" and d[3][0] == "agg" and d[3][1] == "closure" and d[3][2] == h.path:
                        site = x
            depth = _dom_depth(fn, site.bb) if site is not None else 10 ** 6
            inner.sort(key=lambda c: _dom_depth(h, c.bb))
            for i, c in enumerate(inner):
                items.append((depth, 1 + i, c))
    items.sort(key=lambda t: (t[0], t[1]))
    seq = []
    for _, _, c in items:
        ty = last_seg(c.path[1:c.path.index(" as ")])
        if not seq or seq[-1] != ty:
            seq.append(ty)
    return seq


def _deser_field_order(fn, adt_path, fields):
    """Order in which the fields of the returned aggregate are read from the input."""
    agg = None
    for _, _, st in fn.stmts():
        if st[0] == "a" and st[2][0] == "agg" and st[2][1] == "adt" and st[2][2] == adt_path:
            agg = st[2]
    if agg is None:
        return None
    order = []
    for name, o in zip(agg[5], agg[3]):
        l = op_local(o)
        if l is None:
            return None
        # earliest (dominance-wise) deserialize / bounded-capacity call this field derives from
        srcs = fn.derives_from(l)
        best = None
        for c in fn.calls():
            if (c.path.endswith("::deserialize") or c.name() == "vec_with_bounded_capacity") and place_local(c.dest) in srcs:
                dd = _dom_depth(fn, c.bb)
                if best is None or dd < best:
                    best = dd
        if best is None:
            return None
        order.append((best, name))
    order.sort()
    return [n for _, n in order]


def _controls(ctx, F, serde_fn):
    import copy
    from .lib import Fn
    de = serde_fn("cairo_lang_sierra::program::GenericArg", "deserialize")
    d = copy.deepcopy(de.d)
    # swap tags 3 and 4 on the reading side
    for bl in d["body"]["blocks"]:
        t = bl["t"]
        if t[0] == "switch" and len(t[2]) >= 6:
            m = {v: b for v, b in t[2]}
            t[2] = [[v, (m[4] if v == 3 else m[3] if v == 4 else b)] for v, b in t[2]]
    m = Fn(d, de.crate)
    dmap, _ = deserialize_tag_map(F, m, "program::GenericArg")
    ctx.control("swapped tags 3/4 on the reading side", dmap is not None and dmap.get(3) == ("Libfunc", False))


# ------------------------------------------------------------------------------------------------
# R18.5 every routine that renames the ids inside generic arguments handles the same kinds of argument

def _id_replacers(ctx, F):
    """Routines that dispatch on the kind of a GenericArg and rename the id it holds (debug names, id replacement)
    are siblings: each must act on every kind of argument that any of them acts on (Type, UserFunc, Libfunc hold ids
    with their own name maps) - an argument kind renamed in the statements but not inside the type declarations makes
    the printed program refer to one entity under two names."""
    GA = "cairo_lang_sierra::program::GenericArg"
    adt = F.adts.get(GA)
    if not adt:
        ctx.ob("R18.5", "GenericArg", False, "the GenericArg type is not in the facts", "")
        return
    vnames = [v["name"] for v in adt["variants"]]
    sites = []
    for p, f in sorted(F.fns.items()):
        if not f.body or f.crate not in ("cairo_lang_sierra", "cairo_lang_sierra_generator"):
            continue
        for bb, t in f.switches():
            si = f.switch_info(bb)
            if not si or si[0] != "disc" or si[2] != GA:
                continue
            acting = set()
            succs = f.succ(bb)
            for v, s_ in t[2]:
                if not isinstance(v, int) or v >= len(vnames):
                    continue
                others = [x for x in succs if x != s_]
                # blocks only this arm reaches before re-joining the other arms
                own = f.reachable_blocks(s_, avoid=set()) - set().union(*[f.reachable_blocks(o, avoid={s_}) | {o} for o in others]) if others else {s_}
                own |= {s_} if s_ not in set().union(*[f.reachable_blocks(o) | {o} for o in others]) else set()
                calls = [c for c in f.calls() if c.bb in own and "replace" in c.name()]
                if calls:
                    acting.add(vnames[v])
            if acting:
                sites.append((f, bb, acting))
    required = set().union(*[a for _, _, a in sites]) if sites else set()
    ords = {}
    for f, bb, acting in sites:
        ctx.analysed(f)
        k = fn_key(f.path)
        ords[k] = ords.get(k, 0) + 1
        missing = required - acting
        ctx.ob("R18.5", "generic-arg-ids:%s#%d" % (k, ords[k]), not missing,
               "renames the ids of generic arguments of kind %s" % sorted(acting) if not missing else
               "renames the ids of generic arguments of kind %s only; its siblings also rename %s: an id of that kind inside these arguments keeps its "
               "old name while the rest of the program uses the new one" % (sorted(acting), sorted(missing)), f.where())
    ctx.floor("routines renaming ids inside generic arguments", len(sites), 2)
