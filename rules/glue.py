"""C11 R11.10 - two tokens are never joined into another token.

The formatter writes a space between two consecutive tokens unless `force_no_space_after(left)` or
`force_no_space_before(right)` says otherwise.  The parser's lexer is maximal munch: `.` `.` written without a space is
the token `..`.  In ordinary syntax the grammar rules out most neighbours; inside a macro token tree any two tokens can be
neighbours.  So a token kind that is tight on a side *whatever its context* (the arm of the kind `match` returns true
without looking at the parent or grandparent kind) must not be able to combine with any neighbour on that side.

Two tables are extracted from the code on every run and compared:
  * the lexer's dispatch (`Lexer::match_terminal`): a walk of its decision tree over the peeked characters yields the fixed
    spelling of every punctuation token kind (`take_token_of_kind`, `pick_kind`, `take` + `peek` + a nested `match`);
  * the formatter's unconditional tight kinds: the targets of the `SwitchInt` on `self.kind(db)` in the two functions that
    consist of `_0 = true` only.
An ordered pair (A, B) with A tight-after or B tight-before is *joined* when maximal munch over the extracted spellings
does not split text(A) + text(B) back into exactly [text(A), text(B)].

Arms that are tight under a condition on the parent / grandparent kind are evaluated for the position every token of a
macro token tree has - parent: its terminal, grandparent: TokenTreeLeaf - by a small partial evaluator of the function's MIR
over the value domain {kind, Some(kind), None, integer}; promoted constants (`Some(SyntaxKind::X)`) are evaluated the same
way, and any value the evaluator does not know makes the arm "not tight".

Under-approximation (stated, not hidden): word-like tokens (identifiers, keywords, literals) are not modelled, and a
condition the evaluator cannot follow counts as not tight.  The rule therefore can miss joins, it does not invent them.
"""
from .lib import op_local, op_const, last_seg


def _agg_kind(fn, bb, local):
    """The TokenKind variant assigned to `local` by an aggregate statement of block bb."""
    for st in fn.blocks[bb]["s"]:
        if st[0] == "a" and isinstance(st[1], int) and st[1] == local and st[2][0] == "agg" and st[2][1] == "adt" \
                and st[2][2].endswith("lexer::TokenKind"):
            return st[2][4]
    return None


def _char_const(o):
    c = op_const(o)
    try:
        return chr(int(c[1]))
    except (TypeError, ValueError, IndexError):
        return None


def lexer_table(F):
    """text -> TokenKind name for the punctuation tokens, by walking the decision tree of Lexer::match_terminal.
    Returns (table, problems)."""
    mt = F.find1("cairo_lang_parser::lexer::Lexer", name="match_terminal")
    table, problems = {}, []
    # the kind local: destination of the take_token_* calls
    kind_locals = set()
    for c in mt.calls():
        if c.name() in ("take_token_of_kind", "pick_kind"):
            kind_locals.add(op_local(["c", c.dest]) if not isinstance(c.dest, int) else c.dest)
    # the top switch on the peeked char: the switch with most char targets
    switches = [(bb, t) for bb, t in mt.switches() if len(t[2]) >= 10]
    if len(switches) != 1:
        return {}, ["cannot find the character dispatch of match_terminal (%d candidates)" % len(switches)]
    top_bb, top = switches[0]

    def put(text, kind, where):
        if text in table and table[text] != kind:
            problems.append("spelling %r maps to %s and %s" % (text, table[text], kind))
        table[text] = kind

    def walk(bb, taken, cur, depth=0):
        """`taken`: characters consumed so far; `cur`: the peeked, not yet consumed character (or None)."""
        if depth > 12:
            problems.append("walk too deep at bb%d" % bb)
            return
        b = mt.blocks[bb]
        t = b["t"]
        # a direct assignment of the kind (the `_ => TokenKind::X` arm after a take)
        for st in b["s"]:
            if st[0] == "a" and isinstance(st[1], int) and st[1] in kind_locals and st[2][0] == "agg" and \
                    st[2][2].endswith("lexer::TokenKind"):
                put(taken, st[2][4], bb)
                return
        if t[0] == "call":
            name = last_seg(t[1].get("path", ""))
            if name == "take_token_of_kind":
                k = _agg_kind(mt, bb, op_local(t[2][1]))
                if k is None or cur is None:
                    problems.append("take_token_of_kind without a constant kind at bb%d" % bb)
                    return
                put(taken + cur, k, bb)
                return
            if name == "pick_kind":
                c2 = _char_const(t[2][1])
                kl, ks = _agg_kind(mt, bb, op_local(t[2][2])), _agg_kind(mt, bb, op_local(t[2][3]))
                if None in (c2, kl, ks) or cur is None:
                    problems.append("pick_kind with non-constant arguments at bb%d" % bb)
                    return
                put(taken + cur, ks, bb)
                put(taken + cur + c2, kl, bb)
                return
            if name == "take":
                if cur is None:
                    problems.append("take without a peeked character at bb%d" % bb)
                    return
                return walk(t[4], taken + cur, None, depth + 1)
            if name == "peek":
                return walk(t[4], taken, None, depth + 1)
            if name.startswith("take_token_"):
                return          # word-like tokens (numbers, strings, identifiers): not modelled
            problems.append("unexpected call %s at bb%d" % (name, bb))
            return
        if t[0] == "switch":
            # either the Option discriminant of a peek (follow the Some edge and the None edge) or a char switch
            tgts = t[2]
            is_char = any(int(v) > 8 for v, _ in tgts)
            if is_char:
                for v, nb in tgts:
                    walk(nb, taken, chr(int(v)), depth + 1)
                walk(t[3], taken, None, depth + 1)
            else:
                for v, nb in tgts:
                    walk(nb, taken, cur, depth + 1)
                walk(t[3], taken, cur, depth + 1)
            return
        if t[0] == "goto":
            return walk(t[1], taken, cur, depth + 1)
        return

    for v, nb in top[2]:
        walk(nb, "", chr(int(v)))
    return table, problems


def munch(text, table):
    """Maximal-munch split of `text` over the extracted spellings; None if some position has no token."""
    out, i = [], 0
    maxlen = max(map(len, table)) if table else 0
    while i < len(text):
        for n in range(min(maxlen, len(text) - i), 0, -1):
            if text[i:i + n] in table:
                out.append(text[i:i + n])
                i += n
                break
        else:
            return None
    return out


def unconditional_true_kinds(F, fn, kind_names):
    """SyntaxKind names whose arm in `match self.kind(db)` is `=> true` with no further test."""
    ret_true = set()
    for bb, b in enumerate(fn.blocks):
        if len(b["s"]) == 1 and b["t"][0] == "goto":
            st = b["s"][0]
            if st[0] == "a" and st[1] == 0 and st[2][0] == "use" and op_const(st[2][1]) is not None and op_const(st[2][1])[1] in (1, "1", True):
                ret_true.add(bb)
    out = set()
    found = False
    for bb, t in fn.switches():
        # the switch on the discriminant of self.kind(db)
        l = op_local(t[1])
        d = fn.single_def(l) if l is not None else None
        if not d or d[0] != "stmt" or d[3][0] != "disc" or not d[3][2].endswith("kind::SyntaxKind"):
            continue
        src = fn.single_def(fn.resolve_copy(d[3][1] if isinstance(d[3][1], int) else d[3][1][0]))
        if not src or src[0] != "call" or src[2].name() != "kind":
            continue
        found = True
        for v, nb in t[2]:
            if nb in ret_true:
                out.add(kind_names[int(v)])
    return out if found else None


class _Abort(Exception):
    pass


def _place_value(env, p):
    if isinstance(p, int):
        return env.get(p)
    v = env.get(p[0])
    for e in p[1]:
        if v is None:
            return None
        if e == "*":
            continue
        if isinstance(e, list) and e[0] == "d":
            if v[0] == "some" and e[1] == "Some":
                continue
            return None
        if isinstance(e, list) and e[0] == "f":
            if v[0] == "some" and e[1] == 0:
                v = v[1]
                continue
            return None
        return None
    return v


def _eval_body(blocks, promoted, calls_model, kind_index, limit=400):
    """Evaluates a straight MIR body over the small value domain kind / some / none / int; None when anything is unknown."""
    env = {}

    def opv(o):
        if o[0] in ("c", "m"):
            return _place_value(env, o[1])
        if o[0] == "k":
            if o[1] == "int":
                return ("int", int(o[2]))
            if o[1] == "promoted":
                return _eval_body(promoted[o[2]]["blocks"], [], calls_model, kind_index)
        return None

    bb, steps = 0, 0
    while steps < limit:
        steps += 1
        b = blocks[bb]
        for st in b["s"]:
            if st[0] != "a" or not isinstance(st[1], int):
                continue
            rv, v = st[2], None
            if rv[0] == "use":
                v = opv(rv[1])
            elif rv[0] == "ref":
                v = _place_value(env, rv[1])
            elif rv[0] == "cast":
                v = opv(rv[2])
            elif rv[0] == "disc":
                x = _place_value(env, rv[1])
                if x is not None and x[0] == "kind":
                    v = ("int", kind_index[x[1]])
                elif x is not None and x[0] in ("some", "none"):
                    v = ("int", 1 if x[0] == "some" else 0)
            elif rv[0] == "agg" and rv[1] == "adt":
                if rv[2].endswith("kind::SyntaxKind"):
                    v = ("kind", rv[4])
                elif rv[2] == "core::option::Option":
                    v = ("some", opv(rv[3][0])) if rv[4] == "Some" else ("none",)
                    if v[0] == "some" and v[1] is None:
                        v = None
            elif rv[0] == "un" and rv[1] == "Not":
                x = opv(rv[2])
                v = ("int", 1 - x[1]) if x is not None and x[0] == "int" else None
            elif rv[0] == "bin" and rv[1] in ("Eq", "Ne"):
                x, y = opv(rv[2]), opv(rv[3])
                if x is not None and y is not None:
                    v = ("int", int((x == y) == (rv[1] == "Eq")))
            env[st[1]] = v
        t = b["t"]
        if t[0] == "goto":
            bb = t[1]
        elif t[0] == "ret" or t[0] == "return":
            return env.get(0)
        elif t[0] == "switch":
            x = opv(t[1])
            if x is None or x[0] != "int":
                return None
            nxt = t[3]
            for val, tb in t[2]:
                if int(val) == x[1]:
                    nxt = tb
            bb = nxt
        elif t[0] == "call":
            name = last_seg(t[1].get("path", ""))
            args = [opv(a) for a in t[2]]
            if name in calls_model:
                v = calls_model[name]
            elif name in ("eq", "ne") and len(args) == 2 and "PartialEq" in (t[1].get("path", "") + t[1].get("via", "")):
                if args[0] is None or args[1] is None:
                    return None
                v = ("int", int((args[0] == args[1]) == (name == "eq")))
            else:
                return None
            d = t[3]
            if isinstance(d, int):
                env[d] = v
            else:
                return None
            if t[4] is None:
                return None
            bb = t[4]
        elif t[0] == "drop":
            bb = t[2]
        else:
            return None
    return None


def tight_in_token_tree(fn, kind, kind_index):
    """True iff the formatter function returns true for a token of `kind` whose parent is its terminal and whose grandparent is a
    TokenTreeLeaf (the position of every token inside a macro token tree); None / False otherwise."""
    model = {"kind": ("kind", kind),
             "parent_kind": ("some", ("kind", "Terminal" + kind[len("Token"):])),
             "grandparent_kind": ("some", ("kind", "TokenTreeLeaf"))}
    try:
        v = _eval_body(fn.blocks, fn.d.get("promoted") or [], model, kind_index)
    except (_Abort, KeyError, IndexError, TypeError):
        return None
    return v == ("int", 1)


def run(ctx, F_fmt):
    """Records the R11.10 obligations.  F_fmt: facts of the formatter (with the syntax ADTs)."""
    FP = ctx.load(["cairo_lang_parser"], adts_only=["cairo_lang_syntax"])
    table, problems = lexer_table(FP)
    ctx.ob("R11.10", "lexer-table", not problems and len(table) >= 40,
           "%d punctuation spellings extracted from Lexer::match_terminal%s" % (
               len(table), (": " + "; ".join(problems[:3])) if problems else ""), "")
    ctx.floor("punctuation spellings extracted from the lexer", len(table), 40)
    kadt = [p for p in F_fmt.adts if p.endswith("node::kind::SyntaxKind")]
    if len(kadt) != 1 or not table:
        ctx.ob("R11.10", "syntax-kinds", False, "SyntaxKind not found", "")
        return
    kind_names = [v["name"] for v in F_fmt.adts[kadt[0]]["variants"]]
    text_of = {}
    for text, k in table.items():
        if ("Token" + k) in kind_names:
            text_of["Token" + k] = text
    NP = "cairo_lang_formatter::node_properties::"
    sides = {}
    for side in ("after", "before"):
        fn = F_fmt.find1(NP, name="force_no_space_" + side)
        ctx.analysed(fn)
        ks = unconditional_true_kinds(F_fmt, fn, kind_names)
        ctx.ob("R11.10", "tight-%s:kind-dispatch" % side, ks is not None,
               "unconditionally tight %s: %s" % (side, sorted(ks)) if ks is not None else
               "the dispatch on self.kind(db) was not found in force_no_space_%s" % side, fn.where())
        ks = set(ks or ())
        kind_index = {n: i for i, n in enumerate(kind_names)}
        cond = set()
        if "TokenTreeLeaf" in kind_index:
            for k in text_of:
                if k not in ks and ("Terminal" + k[len("Token"):]) in kind_index and tight_in_token_tree(fn, k, kind_index):
                    cond.add(k)
        ctx.ob("R11.10", "tight-%s:in-token-tree" % side, True,
               "tight %s under a condition that holds for a token of a macro token tree (kind, parent terminal, grandparent "
               "TokenTreeLeaf evaluated through the function): %s" % (side, sorted(cond)), fn.where())
        sides[side] = (ks | cond, fn)
    ctx.floor("unconditionally tight kinds", len(sides["after"][0]) + len(sides["before"][0]), 6)
    n_pairs = 0
    for a, ta in sorted(text_of.items()):
        for b, tb in sorted(text_of.items()):
            tight = (a in sides["after"][0], b in sides["before"][0])
            if not any(tight):
                continue
            n_pairs += 1
            got = munch(ta + tb, table)
            if got == [ta, tb]:
                continue
            why = "`%s` is tight after" % ta if tight[0] else "`%s` is tight before" % tb
            why += " in a macro token tree"
            fn = sides["after"][1] if tight[0] else sides["before"][1]
            ctx.ob("R11.10", "glue:%s+%s" % (a, b), False,
                   "%s, so `%s %s` is written `%s%s`, which the lexer reads as %s: inside a macro token "
                   "tree (where any two tokens can be neighbours) the code tokens change" % (why, ta, tb, ta, tb, got), fn.where())
    for side in ("after", "before"):
        for k in sorted(sides[side][0]):
            if k in text_of:
                ctx.ob("R11.10", "tight-%s:%s" % (side, k), True,
                       "`%s` is unconditionally tight %s; its joins are listed under glue:*" % (text_of[k], side),
                       sides[side][1].where())
    ctx.floor("token pairs examined for joins", n_pairs, 300)
