"""C15 - Sierra acceptance implies well-typedness and exact-once use of every value.

The guards *are* the property: `compile` may return Ok only if each clause of the statement was
checked.  Each clause is mapped to rejections and to the structural facts that make each rejection
effective: the test compares the right operands with the right relation, the rejecting edge
cannot fall through into acceptance, the test cannot be bypassed, and consumption of a variable
is a removing operation.
"""
from .guards import (Cmp, CallResult, Field, check_guard, call_dominates, ok_block_after,
                     blocks_constructing, prov, op_prov, marker_matches)
from .lib import last_seg, op_local, place_local, place_fields, rvalue_places, strip_generics

EXPLANATION = (
    "Decides the structural clause of C15: every clause of the statement (argument types, "
    "exact-once consumption, nothing left over at return, agreement at merges, branch alignment, "
    "dup/drop only where allowed, consistent frame/ap state) has a rejection guard on every path to "
    "acceptance. Templates: must-pass-through (guard dominates the accepting continuation), control "
    "dependence with normalised relation and operand provenance (the error edge is taken iff the "
    "violating relation holds between the right operands), no fall-through from the rejecting edge, "
    "no bypass inside loops, and typestate of the variable map (consumption is a removing method). "
    "Decides this structural part, not that libfunc signatures describe the generated code.")
ASSUMPTIONS = [
    "libfunc signatures (OutputVarReferenceInfo, SameAsParam, ap changes) describe the generated code correctly",
    "callee semantics of std/itertools/indexmap methods (swap_remove removes, insert returns the old value, itertools::equal is element-wise equality)",
]
EXHAUSTIVE = True

CRATES = ["cairo_lang_sierra_to_casm", "cairo_lang_sierra"]


def run(ctx):
    F = ctx.load(CRATES)
    S2C = "cairo_lang_sierra_to_casm::"

    def g(rule, key, fn, matcher, err=None, rel=None, **kw):
        ctx.analysed(fn)
        r = check_guard(fn, matcher, err=err, expect_rel=rel, **kw)
        ctx.ob(rule, key, r.ok, r.msg, fn.where(r.line))
        return r

    def dom(rule, key, fn, guard, target, ok_edge=True):
        ctx.analysed(fn)
        ok, msg, n = call_dominates(fn, guard, target, ok_edge)
        ctx.ob(rule, key, ok, msg or "success edge of %s dominates %s (%d sites)" % (guard, target, n), fn.where())

    compile_fn = F.find1(S2C + "compiler::compile", kind="Fn")
    CE = "compiler::CompilationError"

    # ---- clause: arguments have exactly the declared types
    ctm = F.find1(S2C + "references::check_types_match", kind="Fn")
    CTM = strip_generics(ctm.path)          # the routine under its current name (the anchor survives a rename)
    dom("R15.types", "compile:check_types_match=>compile_invocation", compile_fn,
        CTM, "invocations::compile_invocation")
    # the two arguments of check_types_match derive from the taken references and the signature
    for c in compile_fn.calls_to(CTM):
        p0, p1 = op_prov(compile_fn, c.args[0], 24), op_prov(compile_fn, c.args[1], 24)
        ok = ("c:get_annotations_after_take_args" in p0) and ("c:param_signatures" in p1)
        ctx.ob("R15.types", "compile:check_types_match:operands", ok,
               "operands derive from (taken refs, libfunc.param_signatures())" if ok else
               "check_types_match is not applied to (invoke_refs, param_signatures): %s / %s" % (
                   sorted(x for x in p0 if x[0] in "cn")[:6], sorted(x for x in p1 if x[0] in "cn")[:6]),
               c.where())
    ctm = F.find1(S2C + "references::check_types_match", kind="Fn")
    # accepted idioms: (a) whole-sequence equality (itertools::equal / Iterator::eq / slice ==) of
    # (types, refs.map(ty)); (b) an element-wise loop with a `ty` inequality guard AND an exhaustion /
    # length guard, so that a strict prefix is rejected too.
    ERR = ("ReferencesError", "InvalidReferenceTypeForArgument")
    eq_calls = [c for c in ctm.calls() if c.path in ("itertools::equal",) or
                (c.name() == "eq" and "Iterator" in c.via) or c.name() == "equal"]
    cl = F.closures_of(ctm)
    reads_ty = any("ty" in place_fields(p) for f in [ctm] + cl for _, _, st in f.stmts() if st[0] == "a"
                   for p in rvalue_places(st[2]))
    if eq_calls:
        g("R15.types", "check_types_match:sequence-equality=>Err", ctm, CallResult(eq_calls[0].name(), False), err=ERR)
        c = eq_calls[0]
        p0, p1 = op_prov(ctm, c.args[0]), op_prov(ctm, c.args[1])
        both = (("arg:2" in p0 and "arg:1" in p1) or ("arg:2" in p1 and "arg:1" in p0))
        ok = len(eq_calls) == 1 and both and reads_ty
        ctx.ob("R15.types", "check_types_match:operands", ok,
               "equal(types, refs.map(|r| &r.ty))" if ok else "operands: %s | %s reads_ty=%s" % (
                   sorted(x for x in p0 if x[0] == "a"), sorted(x for x in p1 if x[0] == "a"), reads_ty), ctm.where())
    else:
        r1 = check_guard(ctm, Cmp("ne", "f:ty", None), err=ERR)
        if not r1.ok:
            r1 = check_guard(ctm, Cmp("eq", "f:ty", None), err=ERR)
        ctx.ob("R15.types", "check_types_match:sequence-equality=>Err", r1.ok,
               "element-wise type comparison: " + r1.msg, ctm.where(r1.line))
        # exhaustion: the other sequence must be checked to be finished (a `next()` that is Some
        # after the loop rejects), or the lengths compared
        r2 = check_guard(ctm, Cmp("ne", "c:len", "c:len"), err=ERR, bypass="none")
        if not r2.ok:
            r2 = check_guard(ctm, CallResult("::next", "Some", arg="arg:2"), err=ERR, bypass="none")
            if r2.ok:
                # must be outside the element loop (i.e. after it): the guard block is not in a loop
                from .guards import innermost_loop
                r2.ok = innermost_loop(ctm, r2.site) is None
        ctx.ob("R15.types", "check_types_match:operands", r2.ok and reads_ty,
               "element-wise form must also reject sequences of different length (strict prefixes): %s" % (
                   r2.msg if not r2.ok else "length/exhaustion guard present"), ctm.where())

    # ---- clause: every variable consumed exactly once
    take_args = F.find1(S2C + "annotations::ProgramAnnotations::get_annotations_after_take_args")
    g("R15.linear", "get_annotations_after_take_args:take_vars?", take_args,
      CallResult("take_vars", "Break"), bypass="auto")
    dom("R15.linear", "compile:take_args=>compile_invocation", compile_fn,
        "get_annotations_after_take_args", "invocations::compile_invocation")
    tv = F.find1("cairo_lang_sierra::edit_state::EditState", "OrderedHashMap", "::take_vars")
    # typestate: the lookup that consumes must be a removing method
    tvg = [tv] + F.closures_of(tv)
    removing = [c for h in tvg for c in h.calls() if c.name() in ("swap_remove", "shift_remove", "remove")
                and ("OrderedHashMap" in c.path or "IndexMap" in c.path)]
    nonremoving = [c for h in tvg for c in h.calls() if c.name() in ("get", "get_mut", "contains_key", "get_index_of")
                   and ("OrderedHashMap" in c.path or "IndexMap" in c.path)]
    ctx.ob("R15.linear", "take_vars:removing-op", len(removing) == 1 and not nonremoving,
           "consumption uses %s" % ([c.name() for c in removing + nonremoving]), tv.where())
    g("R15.linear", "take_vars:None=>MissingReference", tv, CallResult("remove", "None"),
      err=("EditStateError", "MissingReference"))
    pv = F.find1("cairo_lang_sierra::edit_state::EditState", "OrderedHashMap", "::put_vars")
    g("R15.linear", "put_vars:insert.is_some=>VariableOverride", pv, CallResult("::insert", "Some"),
      err=("EditStateError", "VariableOverride"))
    prop = F.find1(S2C + "annotations::ProgramAnnotations::propagate_annotations")
    g("R15.linear", "propagate_annotations:put_vars?", prop, CallResult("put_vars", "Break"), bypass="none")
    dom("R15.linear", "propagate_annotations:put_vars=>set_or_assert", prop, "put_vars", "set_or_assert")
    sets = prop.calls_to("ProgramAnnotations::set_or_assert")
    ctx.ob("R15.linear", "propagate_annotations:set_or_assert-postdominates",
           len(sets) >= 1 and prop.must_pass(0, [b for b in prop.return_blocks()],
                                             {c.bb for c in sets} | error_blocks(prop)),
           "every non-error return of propagate_annotations passes set_or_assert", prop.where())

    # ---- clause: nothing left over at return
    ret_blocks = blocks_constructing(compile_fn, "instructions::InstructionBody", "Ret")
    ctx.ob("R15.return", "compile:ret-anchor", len(ret_blocks) == 1, "ret instruction sites: %d" % len(ret_blocks),
           compile_fn.where())
    g("R15.return", "compile:keys().next()=Some=>DanglingReferences", compile_fn,
      CallResult("::next", "Some", arg="c:keys"), err=(CE, "DanglingReferences"), protects=ret_blocks)
    for callee in ("validate_final_annotations", "check_references_on_stack"):
        cs = compile_fn.calls_to(callee)
        okb = [ok_block_after(compile_fn, c) for c in cs]
        ok = bool(cs) and all(b is not None for b in okb) and all(
            any(compile_fn.dominates(b, rb) for b in okb) for rb in ret_blocks)
        ctx.ob("R15.return", "compile:%s=>ret" % callee, ok,
               "success edge of %s dominates the ret instruction" % callee, compile_fn.where())
    vfa = F.find1(S2C + "annotations::ProgramAnnotations::validate_final_annotations")
    ctx.analysed(vfa)
    for callee in ("validate_return_properties", "validate_final_environment"):
        cs = vfa.calls_to(callee)
        ctx.ob("R15.return", "validate_final_annotations:calls:" + callee, len(cs) >= 1 and _result_used(vfa, cs[0]),
               "%s is called and its result returned/propagated" % callee, vfa.where())
    vrp = F.find1(S2C + "annotations::ProgramAnnotations::validate_return_properties")
    cs = vrp.calls_to(CTM)
    ok = False
    if len(cs) == 1:
        p0, p1 = op_prov(vrp, cs[0].args[0]), op_prov(vrp, cs[0].args[1])
        ok = "arg:6" in p0 and "f:ret_types" in p1 and _result_used(vrp, cs[0])
    ctx.ob("R15.return", "validate_return_properties:check_types_match(return_refs, ret_types)", ok,
           "return values are checked against the declared return types", vrp.where())
    g("R15.frame", "validate_return_properties:InvalidFunctionApChange", vrp,
      Cmp("ne", None, None), err=("AnnotationError", "InvalidFunctionApChange"), bypass="none")

    # ---- clause: merging paths agree
    soa = F.find1(S2C + "annotations::ProgramAnnotations::set_or_assert")
    g("R15.merge", "set_or_assert:function_id", soa, Cmp("ne", "f:function_id", "f:function_id"), rel="ne",
      err=("AnnotationError", "InconsistentFunctionId"), bypass="none")
    g("R15.merge", "set_or_assert:validate_environment_equality?", soa,
      CallResult("validate_environment_equality", "Break"), bypass="none")
    g("R15.merge", "set_or_assert:test_references_consistency?", soa,
      CallResult("test_references_consistency", "Break"), bypass="none")
    g("R15.merge", "set_or_assert:convergence_allowed", soa, Field("convergence_allowed", False),
      err=("AnnotationError", "InvalidConvergence"), bypass="none")
    # in the `Some(expected)` arm all four tests precede the Ok: the arm's success path passes each
    some_arm = _some_arm_entry(soa)
    if some_arm is None:
        ctx.ob("R15.merge", "set_or_assert:Some-arm", False, "cannot locate the Some(expected) arm", soa.where())
    else:
        for name, m in (("function_id", Cmp("ne", "f:function_id", "f:function_id")),
                        ("env", CallResult("validate_environment_equality", "Break")),
                        ("refs", CallResult("test_references_consistency", "Break")),
                        ("convergence", Field("convergence_allowed", False))):
            r = check_guard(soa, m, bypass="none")
            ok = r.ok and soa.must_pass(some_arm, soa.return_blocks(), {r.site} | error_blocks(soa))
            ctx.ob("R15.merge", "set_or_assert:Some-arm-passes:" + name, ok,
                   "every accepting path of the merge arm passes the %s test" % name, soa.where(r.line))
    for c in soa.calls_to("test_references_consistency") + soa.calls_to("validate_environment_equality"):
        ps = [op_prov(soa, a) for a in c.args[-2:]]
        ok = any("arg:3" in p for p in ps) and any("c:get" in p for p in ps)
        ctx.ob("R15.merge", "set_or_assert:%s:operands" % c.name(), ok,
               "compares the new annotations with the stored ones", c.where())
    trc = F.find1(S2C + "annotations::ProgramAnnotations::test_references_consistency")
    IRE = "InconsistentReferenceError"
    g("R15.merge", "test_references_consistency:len", trc, Cmp("ne", ["c:len", "arg:2"], ["c:len", "arg:3"]),
      rel="ne", err=(IRE, "VariableCountMismatch"))
    g("R15.merge", "test_references_consistency:missing", trc, CallResult("::get", "None", arg="arg:3"),
      err=(IRE, "VariableMissing"))
    # The per-variable tests may sit in the loop itself or in a routine the loop calls for every variable and whose
    # failure it propagates (seed C15-6 moved them into the helper, the type test behind the helper's early returns):
    # in a helper the test must not be bypassable with respect to the helper's returns, which check_guard decides.
    helpers = []
    for c in trc.calls():
        h = F.fns.get(c.path)
        if h is not None and h.body and h.path != trc.path and h not in helpers and \
                check_guard(trc, CallResult(c.name(), "Break")).ok:
            helpers.append(h)
    for fld, var in (("ty", "TypeMismatch"), ("expression", "ExpressionMismatch"), ("stack_idx", "StackIndexMismatch")):
        ctx.analysed(trc)
        r, where_fn = check_guard(trc, Cmp("ne", ["f:" + fld, "c:next"], ["f:" + fld, "c:get"]), err=(IRE, var),
                                  expect_rel="ne"), trc
        if not r.ok and r.msg.startswith("no test of"):
            for h in helpers:
                n = int(h.argc or 0)
                for i in range(1, n + 1):
                    for j in range(1, n + 1):
                        if i == j:
                            continue
                        r2 = check_guard(h, Cmp("ne", ["f:" + fld, "arg:%d" % i], ["f:" + fld, "arg:%d" % j]),
                                         err=(IRE, var), expect_rel="ne")
                        if not r2.msg.startswith("no test of"):
                            if r.msg.startswith("no test of") or r2.ok:
                                r, where_fn = r2, h
                                ctx.analysed(h)
        ctx.ob("R15.merge", "test_references_consistency:" + fld, r.ok,
               r.msg if where_fn is trc else "in %s, called for every variable: %s" % (last_seg(where_fn.path), r.msg),
               where_fn.where(r.line))
    g("R15.merge", "test_references_consistency:test_var_consistency?", trc,
      CallResult("test_var_consistency", "Break"))
    vee = F.find1(S2C + "environment::validate_environment_equality")
    for fld, var in (("ap_tracking", "InconsistentApTracking"), ("frame_state", "InconsistentFrameState"),
                     ("gas_wallet", "InconsistentGasWallet")):
        g("R15.merge", "validate_environment_equality:" + fld, vee,
          Cmp("ne", ["f:" + fld, "arg:1"], ["f:" + fld, "arg:2"]), rel="ne", err=("EnvironmentError", var))

    # ---- clause: every branch lands on an alignment point
    s1 = None
    for bb, t in compile_fn.switches():
        if Cmp("gt", "c:len", "k:1").match(compile_fn, bb) == "gt":
            s1 = bb
    props = [c.bb for c in compile_fn.calls_to("propagate_annotations")]
    if s1 is None or not props:
        ctx.ob("R15.align", "compile:branching_libfunc", False,
               "cannot find `results.len() > 1` test or propagate_annotations call", compile_fn.where())
    else:
        # the definition of "branching" is `results.len() > 1`
        defs_ok = any(st[2][0] == "bin" and st[2][1] == "Gt" and "k:1" in op_prov(compile_fn, st[2][3])
                      and "c:len" in op_prov(compile_fn, st[2][2]) and "f:results" in op_prov(compile_fn, st[2][2])
                      for _, _, st in compile_fn.stmts() if st[0] == "a")
        ctx.ob("R15.align", "compile:branching_libfunc:def", defs_ok,
               "branching_libfunc is `compiled_invocation.results.len() > 1`", compile_fn.where())
        from .guards import bool_edge_value
        true_succ = [s for s in compile_fn.succ(s1) if bool_edge_value(compile_fn, s1, s)]
        entry = true_succ[0] if true_succ else 0
        g("R15.align", "compile:!is_branch_align=>ExpectedBranchAlign", compile_fn,
          CallResult("is_branch_align", False), err=(CE, "ExpectedBranchAlign"), protects=props, entry=entry)
    iba = F.find1(S2C + "compiler::is_branch_align")
    ctx.analysed(iba)
    # Ok(true) only under: Invocation, exactly one branch signature, ap_change == BranchAlign
    true_blocks = [i for i, j, st in iba.stmts() if st[0] == "a" and st[2][0] == "agg" and st[2][1] == "adt"
                   and st[2][2] == "core::result::Result" and st[2][4] == "Ok"
                   and st[2][3] and st[2][3][0][0] == "k" and st[2][3][0][2] == 1]
    conds = _controlling_tokens(iba, true_blocks)
    need = {"disc:GenStatement", "len==1", "BranchAlign"}
    ctx.ob("R15.align", "is_branch_align:true-only-if", len(true_blocks) == 1 and need <= conds,
           "Ok(true) is control dependent on %s" % sorted(conds), iba.where())
    vs = F.find1("cairo_lang_sierra::program_registry::ProgramRegistry", "::validate_statement")
    PRE = "ProgramRegistryError"
    g("R15.align", "validate_statement:arg-count", vs, Cmp("ne", ["c:len", "f:args"], ["c:len", "c:param_signatures"]),
      rel="ne", err=(PRE, "LibfuncInvocationInputCountMismatch"), bypass="none")
    g("R15.align", "validate_statement:branch-count", vs, Cmp("ne", ["c:len", "f:branches"], ["c:len", "c:branch_signatures"]),
      rel="ne", err=(PRE, "LibfuncInvocationBranchCountMismatch"), bypass="none")
    g("R15.align", "validate_statement:result-count", vs, Cmp("ne", ["c:len", "f:results"], ["c:len", "f:vars"]),
      rel="ne", err=(PRE, "LibfuncInvocationBranchResultCountMismatch"))
    g("R15.align", "validate_statement:jump-range", vs, Cmp("ge", ["c:next"], ["c:len", "f:statements"]),
      rel="ge", err=(PRE, "JumpOutOfRange"))
    g("R15.align", "validate_statement:backwards", vs, Cmp("lt", ["c:next"], ["arg:3"]),
      rel="lt", err=(PRE, "BranchBackwards"), bypass="none")
    g("R15.align", "validate_statement:not-to-branch-align", vs, CallResult("::get", "Some", arg="arg:5"),
      err=(PRE, "BranchNotToBranchAlign"), bypass="none")
    g("R15.align", "validate_statement:multiple-jumps", vs, CallResult("::entry", "0", arg="arg:5"),
      err=(PRE, "MultipleJumpsToSameStatement"), bypass="none")
    g("R15.align", "validate_statement:fallthrough-target", vs, Cmp("ne", None, None),
      err=(PRE, "LibfuncInvocationBranchTargetMismatch"), bypass="none")
    v = F.find1("cairo_lang_sierra::program_registry::ProgramRegistry", name="validate")
    cs = v.calls_to("::validate_statement")
    ctx.ob("R15.align", "validate:validate_statement-in-loop", len(cs) == 1 and _result_used(v, cs[0]) and
           check_guard(v, CallResult("validate_statement", "Break")).ok,
           "validate_statement applied to every statement and propagated", v.where())
    new = F.find1("cairo_lang_sierra::program_registry::ProgramRegistry", name="new")
    ctx.ob("R15.align", "ProgramRegistry::new:validate?", check_guard(new, CallResult("::validate", "Break"), bypass="auto").ok,
           "ProgramRegistry::new returns Ok only after validate", new.where())

    # ---- clause: dup / drop only where allowed
    for mod, fld in (("drop::DropLibfunc", "droppable"), ("duplicate::DupLibfunc", "duplicatable")):
        fn = F.find1("cairo_lang_sierra::extensions::modules::" + mod, "::specialize_signature")
        g("R15.dupdrop", "%s:%s" % (mod.split("::")[-1], fld), fn, Field(fld, False, base="c:get_type_info"),
          err=("SpecializationError", "UnsupportedGenericArg"))
    g("R15.dupdrop", "validate:storable", v, Field("storable", False), err=(PRE, "FunctionWithUnstorableType"))
    g("R15.dupdrop", "validate:entry-point-range", v, Cmp("ge", ["f:entry_point"], ["c:len", "f:statements"]),
      rel="ge", err=(PRE, "FunctionNonExistingEntryPoint"))

    # ---- clause: arguments have exactly the declared types - the two records of a function's parameter types agree
    _params_signature(ctx, F, compile_fn, v, new)

    # ---- clause: frame state consistent at return
    vfe = F.find1(S2C + "environment::validate_final_environment")
    ctx.ob("R15.frame", "validate_final_environment:frame_state", bool(vfe.calls_to("validate_final_frame_state")),
           "final frame state validated", vfe.where())
    ctx.analysed(vfe)

    ctx.floor("C15 obligations", len(ctx.obligations), 40)
    _controls(ctx, F)


class SeqEq(Cmp):
    """A whole-sequence comparison guard: `a == b` / `a != b` on sequences, Iterator::eq / ne, itertools::equal."""
    EQ = {"eq": "eq", "equal": "eq", "ne": "ne"}

    def __init__(self, a, b):
        Cmp.__init__(self, "eq", a, b)

    def describe(self):
        return "%s == %s (element-wise)" % (self.a, self.b)

    def match(self, fn, bb):
        from .guards import bool_condition, NEG
        info, flip = bool_condition(fn, bb)
        if not info or info[0] != "call" or info[1].name() not in self.EQ or len(info[1].args) != 2:
            return None
        x, y = info[1].args
        px, py = op_prov(fn, x, 24), op_prov(fn, y, 24)
        if not ((marker_matches(px, self.a) and marker_matches(py, self.b)) or
                (marker_matches(px, self.b) and marker_matches(py, self.a))):
            return None
        rel = self.EQ[info[1].name()]
        return NEG[rel] if flip else rel


def _params_signature(ctx, F, compile_fn, validate, new):
    """R15.sig.  A `Function` records the types of its parameters twice: `params[i].ty` and `signature.param_types[i]`.
    The body is typed from the former (the references of the parameters are built from `params`), a `function_call` from
    the latter (the libfunc signature is specialised from `signature`).  "Each statement receives arguments of exactly the
    declared types" therefore needs the two to be equal; the text parser and the felt252 reader build both from one list,
    a `Program` that is deserialised (serde) or built in memory need not.  Obligation: the two consumers exist (else the
    rule does not apply), and one of the routines acceptance passes through - ProgramRegistry::new / validate, compile, or
    a routine they call and propagate - compares the two sequences element-wise and rejects on a difference."""
    S2C = "cairo_lang_sierra_to_casm::"
    body_readers = [f for f in F.fns.values() if f.path.startswith(S2C) and any(
        "f:params" in op_prov(f, a, 10) for c in f.calls() for a in c.args[:1] if c.name() in ("iter", "into_iter", "deref"))]
    body_readers = [f for f in body_readers if any("ReferenceValue" in str(st) or "ReferenceExpression" in str(st)
                                                   for _, _, st in f.stmts()) or "function_parameters" in f.path]
    ctx.ob("R15.sig", "consumers:body-typed-from-params", bool(body_readers),
           "the parameter references of a function body are built from Function.params in: %s" % sorted(
               strip_generics(f.path).split("::")[-1] for f in body_readers)[:4], body_readers[0].where() if body_readers else "")
    cands = [validate, new, compile_fn]
    for root in (validate, new, compile_fn):
        for c in root.calls():
            t = F.fns.get(c.path)
            if t is not None and t not in cands and _result_used(root, c) and (
                    t.path.startswith("cairo_lang_sierra::program") or t.path.startswith(S2C)):
                cands.append(t)
    best = None
    for f in cands:
        ctx.analysed(f)
        r = check_guard(f, SeqEq(["f:params"], ["f:param_types"]), err=None, expect_rel="ne")
        if r.ok:
            best = (f, r)
            break
        if best is None or ("no test of" in best[1].msg and "no test of" not in r.msg):
            best = (f, r)
    f, r = best
    ctx.ob("R15.sig", "validate:params==signature.param_types", r.ok,
           ("%s rejects a function whose params differ from its signature" % strip_generics(f.path).split("::")[-1]) if r.ok else
           "no routine on the way to acceptance (%s) compares Function.params with Function.signature.param_types and rejects: %s; "
           "the body is typed from the former, callers from the latter" % (
               ", ".join(strip_generics(x.path).split("::")[-1] for x in cands[:6]), r.msg),
           f.where(r.line) if r.ok else validate.where())


def error_blocks(fn):
    from .guards import error_sink_blocks
    return error_sink_blocks(fn)


def _result_used(fn, call):
    """The call's result reaches the return value or a `?`/match (not discarded)."""
    dl = place_local(call.dest)
    flows = fn.flows_to(dl)
    if 0 in flows:
        return True
    for bb, t in fn.switches():
        l = op_local(t[1])
        if l is not None and l in flows:
            return True
    return False


def _some_arm_entry(soa):
    """Entry block of the `Some(expected_annotations)` arm of set_or_assert: the switch on the stored annotations whose
    Some edge leads to the merge tests and whose None edge (first visit: the annotations are stored) does not."""
    from .guards import bool_condition, succ_for_value
    r = check_guard(soa, Cmp("ne", "f:function_id", "f:function_id"), bypass="none")
    if not r.ok:
        return None
    best = None
    for bb, t in soa.switches():
        info, _ = bool_condition(soa, bb)
        if info and info[0] == "disc" and info[2] == "core::option::Option":
            toks = prov(soa, place_local(info[1]))
            if "c:get" in toks or "f:per_statement_annotations" in toks:
                some_s = succ_for_value(soa, bb, 1)
                none_s = succ_for_value(soa, bb, 0)
                if r.site in (soa.reachable_blocks(some_s) | {some_s}) and r.site not in (soa.reachable_blocks(none_s) | {none_s}):
                    if best is None or soa.dominates(best[0], bb):
                        best = (bb, some_s)
    return best[1] if best else None


def _controlling_tokens(fn, blocks):
    """Tokens describing the tests every path to `blocks` passes (used for is_branch_align)."""
    from .guards import bool_condition
    toks = set()
    for b in blocks:
        for bb, t in fn.switches():
            if not fn.dominates(bb, b) or bb == b:
                continue
            succs = fn.succ(bb)
            through = [s for s in succs if b in fn.reachable_blocks(s, avoid={bb}) or s == b]
            if len(through) == len([s for s in succs if not fn.is_unreachable_block(s)]):
                continue
            info, flip = bool_condition(fn, bb)
            if not info:
                continue
            if info[0] == "disc":
                toks.add("disc:" + info[2].rsplit("::", 1)[-1])
            elif info[0] == "bin" and info[1] == "Eq":
                pa, pb = op_prov(fn, info[2]), op_prov(fn, info[3])
                if ("k:1" in pa or "k:1" in pb) and ("c:len" in pa | pb or "op:PtrMetadata" in pa | pb or True):
                    toks.add("len==1")
            elif info[0] == "call" and info[1].name() in ("eq", "ne"):
                pa = set()
                for a in info[1].args:
                    pa |= op_prov(fn, a)
                if "f:ap_change" in pa and any("BranchAlign" in x for x in pa):
                    toks.add("BranchAlign")
            elif info[0] == "place":
                pass
    # derived PartialEq on a fieldless-variant compare may be lowered to discriminant equality
    for b in blocks:
        for bb, t in fn.switches():
            if fn.dominates(bb, b):
                info, _ = bool_condition(fn, bb)
                if info and info[0] == "call":
                    pa = set()
                    for a in info[1].args:
                        pa |= op_prov(fn, a)
                    if "f:ap_change" in pa:
                        toks.add("BranchAlign")
    return toks


def _controls(ctx, F):
    """Positive controls on mutated copies of the real facts: each must make its rule fire."""
    import copy
    from .lib import Fn
    # 1. take_vars with a non-removing lookup
    tv = F.find1("cairo_lang_sierra::edit_state::EditState", "OrderedHashMap", "::take_vars")
    d = copy.deepcopy(tv.d)
    for bl in d["body"]["blocks"]:
        t = bl["t"]
        if t[0] == "call" and t[1].get("path", "").endswith("::swap_remove"):
            t[1]["path"] = t[1]["path"].replace("swap_remove", "get")
    m = Fn(d, tv.crate)
    rem = [c for c in m.calls() if c.name() in ("swap_remove", "shift_remove", "remove")]
    ctx.control("take_vars turned into a non-consuming lookup", len(rem) == 0)
    # 2. DanglingReferences guard with the error edge turned into fall-through
    cf = F.find1("cairo_lang_sierra_to_casm::compiler::compile", kind="Fn")
    d = copy.deepcopy(cf.d)
    m = Fn(d, cf.crate)
    sinks = blocks_constructing(m, "compiler::CompilationError", "DanglingReferences")
    ret_blocks = blocks_constructing(m, "instructions::InstructionBody", "Ret")
    # redirect: the block constructing the error now jumps to the ret site
    for b in sinks:
        d["body"]["blocks"][b]["t"] = ["goto", ret_blocks[0]]
        d["body"]["blocks"][b]["s"] = [s for s in d["body"]["blocks"][b]["s"]
                                       if not (s[0] == "a" and s[2][0] == "agg" and s[2][1] == "adt" and s[2][4] == "DanglingReferences")]
    m = Fn(d, cf.crate)
    r = check_guard(m, CallResult("::next", "Some", arg="c:keys"),
                    err=("compiler::CompilationError", "DanglingReferences"), protects=ret_blocks)
    ctx.control("dangling-references rejection removed", not r.ok)
    # 3. relation flip: `>=` -> `>` in the entry point range check
    v = F.find1("cairo_lang_sierra::program_registry::ProgramRegistry", name="validate")
    d = copy.deepcopy(v.d)
    n = 0
    for bl in d["body"]["blocks"]:
        for st in bl["s"]:
            if st[0] == "a" and st[2][0] == "bin" and st[2][1] == "Ge":
                st[2][1] = "Gt"
                n += 1
    m = Fn(d, v.crate)
    r = check_guard(m, Cmp("ge", ["f:entry_point"], ["c:len", "f:statements"]), expect_rel="ge",
                    err=("ProgramRegistryError", "FunctionNonExistingEntryPoint"))
    ctx.control("entry point range check weakened to `>`", n >= 1 and not r.ok)
