"""C13 - incremental recompilation equals from scratch (clauses: equality used for back-dating
compares everything a consumer can tell apart; untracked reads are reported; syntax-node identity
is minted in one place; no memo outside salsa)."""
import os
import re
from collections import defaultdict

from .guards import op_prov
from .lib import (fn_key, CallGraph, op_local, op_const, place_local, place_proj, rvalue_places, strip_generics,
                  last_seg, promoted_consts, AnchorError)

EXPLANATION = (
    "Decides the structural clause of C13: (R13.1) every hand-written PartialEq of a workspace type compares "
    "every field of the type, or delegates to a whole-value method, except fields listed with a reason "
    "(derived caches); Hash never reads a field that Eq ignores; (R13.2) every file-system read reachable from a "
    "salsa tracked function is in a function where Database::report_untracked_read is also called and dominates "
    "it (or is a reasoned exception); (R13.3) SyntaxNode values are constructed only in from_data / "
    "new_syntax_node, canonical roots only by the parser's file query, and the cache fields derive from the "
    "node data; (R13.4) the tracked fields of SyntaxNodeData are exactly green and offset_in_parent; (R13.5) "
    "every static with interior mutability in the workspace is enumerated and none is written by code "
    "reachable from a tracked function. The equivalence of incremental and from-scratch results itself is "
    "not decided.")
ASSUMPTIONS = ["#[derive(PartialEq)] compares all fields (complete by construction)",
               "salsa re-executes a query when a compared input value differs under Eq"]
EXHAUSTIVE = True
TABLES = os.path.join(os.path.dirname(__file__), "..", "tables")
FS = re.compile(r"^(std::fs::|std::path::Path::(exists|is_file|is_dir|read_dir|metadata|canonicalize|read_link|symlink_metadata)|"
                r"std::fs::File::|std::io::(Read|BufRead)::)")
MUTATE = {"lock", "write", "store", "set", "get_or_init", "get_or_insert_with", "swap", "fetch_add", "fetch_sub", "replace",
          "borrow_mut", "get_mut", "call_once", "insert", "push", "compare_exchange", "get_or_try_init", "take"}


def load_table(name):
    rows = {}
    p = os.path.join(TABLES, name)
    if os.path.exists(p):
        for line in open(p):
            if line.strip() and not line.startswith("#"):
                parts = line.rstrip("\n").split("\t")
                rows[parts[0]] = parts[1] if len(parts) > 1 else ""
    return rows


def fields_read(F, fn, adt):
    """(fields of `adt` read by fn and its closures, delegates_whole_self)"""
    read = set()
    whole = False
    for g in F.with_closures(fn):
        for _, _, st in g.stmts():
            if st[0] != "a":
                continue
            for p in rvalue_places(st[2]):
                for e in place_proj(p):
                    if isinstance(e, list) and e[0] == "f" and e[3] == adt and g.is_used(place_local(st[1])):
                        read.add(e[2])
        if g is fn:
            for c in g.calls():
                # a method called on the whole `self` (arg 1) and on `other` (arg 2)
                ls = [g.resolve_copy(op_local(a)) for a in c.args if op_local(a) is not None]
                if 1 in ls and c.name() not in ("eq", "ne", "hash"):
                    whole = True
    return read, whole


def run(ctx):
    F = ctx.load(None)
    for f in F.fns.values():
        ctx.analysed(f)
    exc = load_table("c13_eq_exceptions.tsv")
    used = set()

    # ---------------- R13.1 Eq completeness
    n_manual = 0
    seen = set()
    for i in F.impls:
        if i.get("trait") != "core::cmp::PartialEq" or i["derived"]:
            continue
        adt = i.get("self_adt")
        if adt not in F.adts or adt in seen:
            continue
        seen.add(adt)
        a = F.adts[adt]
        eqs = [f for f in F.fns.values() if f.d.get("self_adt") == adt and f.d.get("trait") == "core::cmp::PartialEq" and f.name == "eq"]
        if not eqs:
            continue
        n_manual += 1
        fields = [n for v in a["variants"] for n, t in v["fields"] if not t.startswith("core::marker::PhantomData")]
        read, whole = set(), False
        for e in eqs:
            r, w = fields_read(F, e, adt)
            read |= r
            whole = whole or w
        hashes = [f for f in F.fns.values() if f.d.get("self_adt") == adt and f.d.get("trait") == "core::hash::Hash" and f.name == "hash"
                  and not f.d.get("derived")]
        for fld in fields:
            key = "%s.%s" % (adt, fld)
            ok = fld in read or (whole and not read)
            msg = "eq %s field `%s`" % ("compares" if fld in read else "delegates to a whole-value method covering" if ok else "IGNORES", fld)
            if not ok and key in exc:
                used.add(key)
                ok = True
                msg += " [exception: %s]" % exc[key]
            ctx.ob("R13.1", "eq:" + key, ok, msg, eqs[0].where())
        for h in hashes:
            hr, hw = fields_read(F, h, adt)
            extra = hr - read if read else set()
            ctx.ob("R13.1", "hash<=eq:" + adt, not extra,
                   "Hash reads %s, Eq reads %s" % (sorted(hr), sorted(read) or "whole value"), h.where())
    ctx.floor("hand-written PartialEq impls on workspace types", n_manual, 10)
    # derived PartialEq on SalsaValue types: complete by construction; count them for the record
    n_salsa = len(set(i.get("self_adt") for i in F.impls if i.get("trait", "").endswith("salsa_value::SalsaValue")))
    ctx.ob("R13.1", "salsa-values", n_salsa >= 1000, "%d SalsaValue types; all but the hand-written impls above use derived equality" % n_salsa, "")

    # ---------------- R13.6 equality of the ordered containers is order-sensitive
    # (consumers iterate them, so two values that differ only in order are distinguishable; IndexMap's own
    # `==` ignores order and must not be what these impls delegate to)
    for cont in ("cairo_lang_utils::ordered_hash_map::OrderedHashMap", "cairo_lang_utils::ordered_hash_set::OrderedHashSet"):
        eqs = [f for f in F.fns.values() if f.d.get("self_adt") == cont and f.d.get("trait") == "core::cmp::PartialEq" and f.name == "eq"]
        if not eqs:
            derived = any(i.get("self_adt") == cont and i.get("trait") == "core::cmp::PartialEq" and i["derived"] for i in F.impls)
            ctx.ob("R13.6", "ordered-eq:" + cont, False, "no hand-written PartialEq found (%s): indexmap equality ignores order" % (
                "derived" if derived else "missing"), "")
            continue
        e = eqs[0]
        calls = [c for g in F.with_closures(e) for c in g.calls()]
        delegates = [c for c in calls if c.name() in ("eq", "ne") and ("indexmap::" in c.path or "IndexMap" in c.path or "IndexSet" in c.path)]
        iters = [c for c in calls if c.name() in ("iter", "into_iter")]
        pairwise = [c for c in calls if c.name() in ("zip_eq", "zip", "eq", "all", "eq_by") and "indexmap" not in c.path]
        ok = not delegates and len(iters) >= 2 and bool(pairwise)
        ctx.ob("R13.6", "ordered-eq:" + cont, ok,
               "equality compares the two iteration sequences element by element" if ok else
               "equality %s" % ("delegates to indexmap's order-insensitive `==`" if delegates else "does not compare the iteration sequences"), e.where())

    # ---------------- R13.2 untracked reads
    cg = CallGraph(F)
    roots = [p for p in F.fns if p.endswith("as salsa::function::Configuration>::execute::inner_")]
    ctx.floor("salsa tracked functions", len(roots), 200)
    reach = cg.reachable(roots)
    n_fs = 0
    for p in sorted(reach):
        f = F.fns[p]
        for c in f.calls():
            sp = strip_generics(c.path)
            if not FS.match(sp):
                continue
            n_fs += 1
            key = "%s|%s" % (fn_key(p), sp)
            reports = [x for x in f.calls() if x.name() == "report_untracked_read"]
            ok = any(f.dominates(x.bb, c.bb) for x in reports)
            msg = "file-system read %s is preceded by report_untracked_read" % sp if ok else \
                "file-system read %s in a function reachable from a tracked query without report_untracked_read (%s)" % (
                    sp, " <- ".join(last_seg(x) for x in CallGraph.witness(reach, p)[-4:]))
            if not ok and ("fs:" + key) in exc:
                used.add("fs:" + key)
                ok = True
                msg += " [exception: %s]" % exc["fs:" + key]
            ctx.ob("R13.2", key, ok, msg, c.where())
    ctx.floor("file-system reads reachable from tracked functions", n_fs, 1)

    # ---------------- R13.3 node construction is confined
    SN = "cairo_lang_syntax::node::SyntaxNode"
    makers = set()
    for p, f in F.fns.items():
        if not f.body:
            continue
        for _, _, st in f.stmts():
            if st[0] == "a" and st[2][0] == "agg" and st[2][1] == "adt" and st[2][2] == SN:
                makers.add(fn_key(p))
                # the cache fields derive from data / the id's parent
                ops = dict(zip(st[2][5], st[2][3]))
                for fld in ("arena_root", "parent", "kind", "parent_kind"):
                    toks = op_prov(f, ops[fld], 10) if fld in ops else set()
                    src_ok = bool(toks & {"c:id", "c:green", "f:data", "f:kind", "f:arena_root", "f:parent", "n:parent", "n:green",
                                          "a:data", "a:green", "a:id", "n:data", "c:long", "f:parent_kind", "n:kind", "n:parent_kind",
                                          "n:inherited_arena_root", "a:arena_root", "n:arena_root"})
                    ctx.ob("R13.3", "SyntaxNode.%s<-data@%s" % (fld, last_seg(p)), src_ok,
                           "cache field `%s` derives from the node data / id: %s" % (fld, sorted(t for t in toks if t[0] in "cfna")[:6]),
                           f.where(st[3]))
    want = {"cairo_lang_syntax::node::SyntaxNode::from_data", "cairo_lang_syntax::node::new_syntax_node"}
    ctx.ob("R13.3", "SyntaxNode-constructors", makers == want, "SyntaxNode is constructed in %s" % sorted(makers), "")
    callers = set(fn_key(c.fn.root) for c in F.callers_of("new_canonical_root") if c.name() == "new_canonical_root" and "SyntaxNode" in c.path)
    ok = len(callers) == 1 and all("file_syntax_data" in x and "cairo_lang_parser::db" in x for x in callers)
    ctx.ob("R13.3", "new_canonical_root-callers", ok, "canonical roots are minted by %s" % sorted(callers), "")
    nsn = set(fn_key(c.fn.root) for c in F.callers_of("node::new_syntax_node") if c.name() == "new_syntax_node")
    allowed = {"cairo_lang_syntax::node::SyntaxNode::new_canonical_root", "cairo_lang_syntax::node::SyntaxNode::collect_children_into"}
    extra = set(x for x in nsn if x not in allowed and "new_detached_root_node" not in x)
    ctx.ob("R13.3", "new_syntax_node-callers", not extra, "new_syntax_node is called from %s" % sorted(last_seg(x) for x in nsn), "")

    # ---------------- R13.4 tracked fields
    tf = [f for p, f in F.fns.items() if f.kind == "AssocConst" and p.endswith("SyntaxNodeData<'static>>::TRACKED_FIELD_NAMES")]
    names = promoted_consts(tf[0], 0) if len(tf) == 1 else None
    ctx.ob("R13.4", "SyntaxNodeData:tracked-fields", names == ["green", "offset_in_parent"],
           "tracked fields of SyntaxNodeData: %s (identity field `id` untracked)" % names, tf[0].where() if tf else "")

    # ---------------- R13.5 no memo outside salsa
    statics = load_table("c13_statics.tsv")
    used_s = set()
    n_static = 0
    for p, f in sorted(F.fns.items()):
        if f.kind != "Static" or not f.locals:
            continue
        ty = f.local_ty(0)
        if not re.search(r"Mutex|RwLock|OnceLock|LazyLock|Atomic|Cell<|sync::once::Once|OnceBox|OnceCell", ty):
            continue
        n_static += 1
        key = fn_key(p)
        if key.endswith("::DEFAULT_VALUE") and "clap_builder" in key:
            key = "clap:DEFAULT_VALUE"
            if key in used_s:
                continue
        # mutation sites in tracked-reachable code
        writers = []
        for q in reach:
            g = F.fns[q]
            if not g.body:
                continue
            for c in g.calls():
                if c.name() in MUTATE:
                    for a in c.args[:1]:
                        toks = op_prov(g, a, 6)
                        if ("static:" + last_seg(p)) in toks and "::test_utils::" not in q:
                            writers.append(fn_key(q))
        row = statics.get(key)
        if row is not None:
            used_s.add(key)
        ok = row is not None and not writers
        ctx.ob("R13.5", "static:" + key, ok,
               ("interior-mutable static `%s`: %s" % (ty[:60], row)) if ok else
               ("interior-mutable static `%s` %s" % (ty[:60], "is written from tracked-reachable code: %s" % writers[:3] if writers else "is not enumerated")),
               f.where())
    ctx.floor("interior-mutable statics", n_static, 8)
    _plugin_state(ctx, F)
    for k in sorted(set(exc) - used):
        ctx.ob("R13.x", "stale:" + k, False, "exception row no longer matches", "tables/c13_eq_exceptions.tsv")
    _controls(ctx, F)


INTERIOR = re.compile(r"\b(Mutex|RwLock|RefCell|Cell|UnsafeCell|OnceLock|OnceCell|LazyLock|LazyCell|Atomic\w+|DashMap|ThreadLocal)\b")
PLUGIN_TRAITS = ("::MacroPlugin", "::InlineMacroExprPlugin", "::AnalyzerPlugin")


def _plugin_state(ctx, F):
    """R13.7: the objects that tracked queries call into without salsa seeing their state - the macro, inline-macro and
    analyzer plugins held by the database - carry no interior-mutable state.  A plugin is shared by every revision of the
    database; anything it remembers between calls (a memo keyed by a stable pointer, a name, a file id) is not invalidated
    when the file changes."""
    n = 0
    for tr in PLUGIN_TRAITS:
        for im in F.impls_of(tr):
            adt_path = im.get("self_adt")
            if not adt_path or "::test_utils::" in adt_path or "::test::" in adt_path:
                continue
            n += 1
            found = _interior_fields(F, adt_path, set(), 0)
            ctx.ob("R13.7", "plugin-state:%s" % adt_path, not found,
                   "plugin `%s` has no interior-mutable state" % last_seg(adt_path) if not found else
                   "plugin `%s` keeps interior-mutable state outside salsa (%s): what it remembers between calls survives the edits that "
                   "should invalidate it" % (last_seg(adt_path), "; ".join(found[:3])),
                   "%s:%s" % ((F.adts.get(adt_path) or {}).get("file", ""), (F.adts.get(adt_path) or {}).get("line", "")))
    ctx.floor("plugin types held by the database", n, 15)


def _interior_fields(F, adt_path, seen, depth):
    """Fields (transitively through workspace types) whose type has interior mutability."""
    if adt_path in seen or depth > 4:
        return []
    seen.add(adt_path)
    adt = F.adts.get(adt_path)
    if not adt:
        return []
    out = []
    for v in adt["variants"]:
        for name, ty in v["fields"]:
            m = INTERIOR.search(ty)
            if m:
                out.append("field `%s`: %s" % (name, ty[:80]))
                continue
            for inner in re.findall(r"cairo_lang_\w+(?:::\w+)+", ty):
                out += _interior_fields(F, inner, seen, depth + 1)
    return out


def _controls(ctx, F):
    import copy
    from .lib import Fn
    # an eq that stops comparing a field: drop the `data` comparison from SyntaxNode::eq
    adt = "cairo_lang_sierra::ids::VarId"
    eq = [f for f in F.fns.values() if f.d.get("self_adt") == adt and f.d.get("trait") == "core::cmp::PartialEq" and f.name == "eq"][0]
    d = copy.deepcopy(eq.d)

    def drop(x):
        if isinstance(x, list):
            for i, y in enumerate(x):
                if isinstance(y, list) and len(y) == 4 and y[0] == "f" and y[2] == "id" and y[3] == adt:
                    y[2] = "debug_name"
                    y[1] = 1
                else:
                    drop(y)
        elif isinstance(x, dict):
            for y in x.values():
                drop(y)
    drop(d["body"])
    m = Fn(d, eq.crate)
    F2 = type("X", (), {})()
    F2.with_closures = lambda fn: [fn]
    r, w = fields_read(F2, m, adt)
    ctx.control("an eq that no longer compares `id`", "id" not in r)
