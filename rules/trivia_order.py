"""Order of the parser's pending trivia (C10 R10.10 / R10.11).

Text the parser does not want in the tree proper is kept as *skipped trivia*: it is pushed on `Parser::pending_trivia`
and attached, in push order, in front of the leading trivia of the next terminal that is taken.  The leaves reproduce
the source only if that queue is in source order and sits between the right neighbours.  Tokens skipped as they are
consumed (`skip_token`, `skip_until`) are pushed in source order by construction.  A *delayed* skip is different: a
node that was taken earlier and held in a local (`attributes`, `visibility_pub`, `path`) is pushed later by a
`skip_taken_node_*` routine.  That is in order only if nothing the parser consumed *after* the first token of that node
is already in the queue (R10.10), and the node's text lands in front of the right terminal only if nothing taken after
it is kept in the tree (R10.11).

Summaries over the parser's routines (functions of cairo_lang_parser that receive `&mut Parser`), least fixpoints:
  SINK[R]  parameters of R whose value may be pushed on pending_trivia (directly or through another sink);
  D[R]     R may return with trivia *it consumed itself* still pending: a push of a value that is not one of its own
           sink parameters, not followed on that path by a flush;
  MF[R]    every path through R flushes the queue (`mem::take(&mut self.pending_trivia)`, i.e. a terminal is taken).
A call of a callback that receives the parser is unknown: it may leave trivia pending.

Site analysis: for every green A a routine obtains from a token-consuming call (an origin of rules/greenflow.py, same
taint and path facts), every path from the origin to a call that hands A to a sink is followed with the fact "may be
pending: trivia consumed after A's first token" and the names of the calls that caused it.
"""
from .lib import Call, op_place, op_local, place_local, place_proj, last_seg, fn_key
from .guards import op_prov
from . import greenflow as gf

PUSH_NAMES = {"push", "extend", "append", "insert", "extend_from_slice", "push_back"}
CALLBACK_NAMES = {"call", "call_mut", "call_once"}
FIELD = "f:pending_trivia"


def takes_parser(f):
    return any(gf.PARSER_ARG in (f.local_ty(i) or "") for i in range(1, f.argc + 1))


VARIANT_VALUE = {"Ok": 0, "Err": 1, "None": 0, "Some": 1, "Continue": 0, "Break": 1}


def wrapper_kind(ty):
    ty = ty or ""
    if ty.startswith("core::result::Result<"):
        return "result"
    if ty.startswith("core::option::Option<"):
        return "option"
    if ty.startswith("core::ops::ControlFlow<"):
        return "cf"
    return None


# An *item* (src, local, value) says: trivia consumed by `src` may be pending - unconditionally (local None), or
# provided the discriminant of the Result / Option held in `local` is `value` (the routine that returned it leaves
# trivia pending only when it returns that variant).
def resolve(items, d, v):
    out = set()
    for it in items:
        if it[1] == d:
            if it[2] == v:
                out.add((it[0], None, None))
        else:
            out.add(it)
    return frozenset(out)


def uncond(items, d):
    return frozenset((it[0], None, None) if it[1] == d else it for it in items)


def stmt_items(f, blk, items):
    """Effect of the statements of a block: moves of a wrapper rename its conditional items."""
    if not any(it[1] is not None for it in items):
        return items
    for st in blk["s"]:
        if st[0] != "a":
            continue
        dst, rv = st[1], st[2]
        if place_proj(dst):
            continue
        dl = place_local(dst)
        if rv[0] == "use":
            p = op_place(rv[1])
            if p is not None and not place_proj(p):
                b = place_local(p)
                if any(it[1] == b for it in items):
                    moved = frozenset((it[0], dl, it[2]) for it in items if it[1] == b)
                    if rv[1][0] == "m":
                        items = frozenset(it for it in items if it[1] != b)
                    items = uncond(items, dl) | moved
                    continue
        if any(it[1] == dl for it in items):
            items = uncond(items, dl)
    return items


def switch_items(f, bb, t, items):
    """[(successor, items)] for a switch: a `match` on the wrapper an item is conditional on decides the item."""
    succs = [(v, s) for v, s in t[2]]
    other = t[3]
    x = op_local(t[1])
    d = None
    if x is not None and any(it[1] is not None for it in items):
        for st in f.blocks[bb]["s"]:
            if st[0] == "a" and not place_proj(st[1]) and place_local(st[1]) == x:
                d = None
                if st[2][0] == "disc" and not place_proj(st[2][1]):
                    d = place_local(st[2][1])
    if d is None or not any(it[1] == d for it in items):
        return [(s, items) for _, s in succs] + [(other, items)]
    out = [(s, resolve(items, d, v)) for v, s in succs]
    rest = [v for v in (0, 1) if v not in {v for v, _ in succs}]
    out.append((other, resolve(items, d, rest[0]) if len(rest) == 1 else (items if rest else frozenset(it for it in items if it[1] != d))))
    return out


class Summaries:
    def __init__(self, F, crate="cairo_lang_parser"):
        self.F = F
        self.fns = {p: f for p, f in F.fns.items() if f.body and f.crate == crate}
        self.routines = {p: f for p, f in self.fns.items() if takes_parser(f) and f.kind != "Closure"}
        self._kind = {}
        self._own = {}
        self.SINK = {p: set() for p in self.routines}
        self.D = {p: False for p in self.routines}
        self.Dv = {p: {0: False, 1: False} for p, f in self.routines.items() if wrapper_kind(f.local_ty(0)) in ("result", "option")}
        self.MF = {p: False for p in self.routines}
        self.pushers = set()
        self.flushers = set()
        self.CB = {}           # routine -> {block of a callback call: (may trivia of its own be pending there, flushed on every path before)}
        self._fix_sinks()
        self._fix_dirty()

    # -- call classification
    def kind(self, f, c):
        k = (f.path, c.bb)
        if k not in self._kind:
            self._kind[k] = self._classify(f, c)
        return self._kind[k]

    def _classify(self, f, c):
        nm = c.name()
        if c.args and nm in PUSH_NAMES | {"take"}:
            l = op_local(c.args[0])
            if l is not None and (f.local_ty(l) or "").startswith("&") and FIELD in op_prov(f, c.args[0], 4):
                return "flush" if nm == "take" else "push"
        if c.path in self.routines:
            return "routine"
        if nm in CALLBACK_NAMES and any(gf.PARSER_ARG in (f.local_ty(op_local(a)) or "") for a in c.args if op_local(a) is not None):
            return "callback"
        return None

    def sink_args(self, f, c):
        """0-based argument positions of call c that the callee may push on pending trivia."""
        k = self.kind(f, c)
        if k == "push":
            return [i for i in range(1, len(c.args))]
        if k == "routine":
            return [i - 1 for i in sorted(self.SINK[c.path]) if i - 1 < len(c.args)]
        return []

    # -- SINK
    def _fix_sinks(self):
        changed = True
        while changed:
            changed = False
            for p, f in self.routines.items():
                params = [i for i in range(1, f.argc + 1) if gf.mentions_green(f.local_ty(i))]
                if not params:
                    continue
                for c in f.calls():
                    for j in self.sink_args(f, c):
                        toks = op_prov(f, c.args[j], 20)
                        for i in params:
                            if "arg:%d" % i in toks and i not in self.SINK[p]:
                                self.SINK[p].add(i)
                                changed = True

    # -- D / MF
    def own_push(self, f, c):
        """Does call c push something other than one of f's own sink parameters?"""
        k = (f.path, c.bb)
        if k not in self._own:
            own = self.SINK.get(f.path, set())
            r = False
            for j in self.sink_args(f, c):
                toks = op_prov(f, c.args[j], 20)
                if not any("arg:%d" % i in toks for i in own):
                    r = True
            self._own[k] = r
        return self._own[k]

    def call_items(self, f, c, items, sink_dirt=True):
        """Pending-trivia items after call c.  sink_dirt: count what the call pushes through its sink arguments
        (the summaries do; the site analysis decides that per argument)."""
        k = self.kind(f, c)
        nm = last_seg(c.path)
        dl = place_local(c.dest) if not place_proj(c.dest) else None
        if k == "flush":
            return frozenset()
        if dl is not None:
            items = uncond(items, dl)
        if k == "push":
            if sink_dirt and self.own_push(f, c):
                items = items | {("pending_trivia." + nm, None, None)}
            return items
        if k == "callback":
            return items | {("callback", None, None)}
        if k == "routine":
            if self.MF[c.path]:
                items = frozenset()
            dv = self.Dv.get(c.path)
            if dv is not None and dl is not None and wrapper_kind(f.local_ty(dl)) in ("result", "option"):
                items = items | frozenset((nm, dl, v) for v in (0, 1) if dv[v])
            elif self.D[c.path]:
                items = items | {(nm, None, None)}
            if sink_dirt and self.SINK[c.path] and self.own_push(f, c):
                items = items | {(nm, None, None)}
            return items
        if nm == "branch" and c.args and dl is not None:
            b = op_local(c.args[0])
            wk = wrapper_kind(f.local_ty(b)) if b is not None else None
            if wk in ("result", "option") and any(it[1] == b for it in items):
                flip = wk == "option"
                moved = frozenset((it[0], dl, (1 - it[2]) if flip else it[2]) for it in items if it[1] == b)
                if c.args[0][0] == "m":
                    items = frozenset(it for it in items if it[1] != b)
                items = items | moved
        return items

    def _flow(self, f):
        n = len(f.blocks)
        din = [None] * n       # None = unreached; else (items may, flushed must)
        din[0] = (frozenset(), False)
        work = [0]
        ret_wk = wrapper_kind(f.local_ty(0))
        dv = {0: False, 1: False}
        d_ret, mf_ret, any_ret = False, True, False

        def site(items, variant, b):
            if variant is not None:
                if items:
                    dv[variant] = True
                return
            for v in (0, 1):
                if any(it[1] is None or it[1] != b or it[2] == v for it in items):
                    dv[v] = True
        while work:
            bb = work.pop()
            items, flushed = din[bb]
            blk = f.blocks[bb]
            # definitions of the return place
            cur = items
            for st in blk["s"]:
                cur = stmt_items(f, {"s": [st]}, cur)
                if st[0] == "a" and place_local(st[1]) == 0 and not place_proj(st[1]):
                    rv = st[2]
                    if rv[0] == "agg" and rv[1] == "adt" and rv[4] in VARIANT_VALUE:
                        site(cur, VARIANT_VALUE[rv[4]], None)
                    elif rv[0] == "use" and op_place(rv[1]) is not None and not place_proj(op_place(rv[1])):
                        site(cur, None, 0)
                    else:
                        site(cur, None, None)
            items = cur
            t = blk["t"]
            k = t[0]
            succ = []
            if k == "call":
                c = Call(f, bb, t)
                if self.kind(f, c) == "callback":
                    self.CB.setdefault(f.path, {})[bb] = (bool(items), flushed)
                items = self.call_items(f, c, items)
                kd = self.kind(f, c)
                flushed = flushed or kd == "flush" or (kd == "routine" and self.MF[c.path])
                if place_local(c.dest) == 0 and not place_proj(c.dest):
                    if c.name() == "from_residual":
                        site(items, 1 if ret_wk == "result" else 0, None)
                    else:
                        site(items, None, 0)
                if c.target is not None:
                    succ = [(c.target, items)]
            elif k == "switch":
                succ = switch_items(f, bb, t, items)
            elif k == "goto":
                succ = [(t[1], items)]
            elif k == "drop":
                succ = [(t[2], items)] if isinstance(t[2], int) else []
            elif k == "assert":
                succ = [(t[5], items)] if isinstance(t[5], int) else []
            elif k == "ret":
                any_ret = True
                d_ret = d_ret or bool(items)
                mf_ret = mf_ret and flushed
            for s, its in succ:
                old = din[s]
                new = (its, flushed) if old is None else (old[0] | its, old[1] and flushed)
                if new != old:
                    din[s] = new
                    work.append(s)
        if not any_ret:
            return False, {0: False, 1: False}, True
        if d_ret and not (dv[0] or dv[1]):
            dv = {0: True, 1: True}
        return d_ret, dv, mf_ret

    def _fix_dirty(self):
        # MF first (it does not depend on D), then D / Dv from below with the final MF
        for _ in range(60):
            changed = False
            for p, f in self.routines.items():
                if self.MF[p]:
                    continue
                _d, _dv, mf = self._flow(f)
                if mf:
                    self.MF[p] = True
                    changed = True
            if not changed:
                break
        for _ in range(80):
            changed = False
            for p, f in self.routines.items():
                d, dv, _mf = self._flow(f)
                if d and not self.D[p]:
                    self.D[p] = True
                    changed = True
                if p in self.Dv:
                    for v in (0, 1):
                        if dv[v] and not self.Dv[p][v]:
                            self.Dv[p][v] = True
                            changed = True
            if not changed:
                break
        for p, f in self.fns.items():
            for c in f.calls():
                k = self.kind(f, c)
                if k == "push":
                    self.pushers.add(p)
                elif k == "flush":
                    self.flushers.add(p)


def runs_callbacks_on_empty_queue(S, path):
    """Every callback call of the routine is preceded, on every path, by a flush of the pending trivia with no push of
    its own in between (`let later = mem::take(&mut self.pending_trivia); f(self); self.pending_trivia.extend(later)`)."""
    cb = S.CB.get(path)
    return bool(cb) and all(fl and not dirty for dirty, fl in cb.values())


def closure_origins(S, F, f):
    """For a closure of a parser routine: (upvar origins, names of the routines it is handed to that do NOT run it on an
    empty queue).  An upvar that holds a green taken by the enclosing routine is an origin of the closure body."""
    if f.kind != "Closure" or not f.body:
        return [], set()
    ups = {}
    for i, j, st in f.stmts():
        if st[0] != "a" or st[2][0] != "use":
            continue
        pl = op_place(st[2][1])
        if pl is None or place_local(pl) != 1:
            continue
        flds = [e for e in place_proj(pl) if isinstance(e, list) and e[0] == "f"]
        if len(flds) != 1 or len(place_proj(pl)) != 1:
            continue
        dl = place_local(st[1])
        if gf.mentions_green(f.local_ty(dl)):
            ups.setdefault(flds[0][1], f.local_ty(dl))
    origins = [gf.Origin(f, None, k, ty, param=1) for k, ty in sorted(ups.items())]
    # where is the closure handed over?
    root = F.fns.get(f.root)
    bad = set()
    found = False
    if root is not None and root.body:
        for g in [root] + F.closures_of(root):
            if not g.body:
                continue
            for i, j, st in g.stmts():
                if st[0] == "a" and st[2][0] == "agg" and st[2][1] == "closure" and st[2][2] == f.path:
                    cl = place_local(st[1])
                    for c in g.calls():
                        if any(op_local(a) == cl for a in c.args):
                            found = True
                            if not (c.path in S.routines and runs_callbacks_on_empty_queue(S, c.path)):
                                bad.add(last_seg(c.path) or "a call")
    if not found:
        bad.add("an unknown caller")
    return origins, bad


def capture_ages(S, F, f, up_origins):
    """{upvar index: block of the call in the enclosing routine that produced the captured green} - which of two captured
    nodes was taken first is decided there."""
    root = F.fns.get(f.root)
    ages = {}
    if root is None or not root.body:
        return ages, None
    sites = []
    for bi, blk in enumerate(root.blocks):
        for si, st in enumerate(blk["s"]):
            if st[0] == "a" and st[2][0] == "agg" and st[2][1] == "closure" and st[2][2] == f.path:
                sites.append((bi, si, st))
    if not sites:
        return ages, None
    for o in gf.origins(root):
        c = o.call
        S0 = gf.State()
        S0.taint[place_local(c.dest)] = o.comp
        stack = [(c.target, S0)]
        seen = set()
        n = 0
        while stack:
            bb, St = stack.pop()
            key = (bb, St.freeze())
            if key in seen or bb is None:
                continue
            seen.add(key)
            n += 1
            if n > 40000:
                break
            St = St.copy()
            blk = root.blocks[bb]
            dead = False
            for si, st in enumerate(blk["s"]):
                for (sb, ssi, sst) in sites:
                    if sb == bb and ssi == si:
                        for k, op in enumerate(sst[2][3]):
                            pl = op_place(op)
                            if pl is None:
                                continue
                            if St.holds(pl) or (not place_proj(pl) and place_local(pl) in St.refs):
                                ages.setdefault(k, c.bb)
                if gf._stmt(root, st, St) == gf.SINK:
                    dead = True
                    break
            if dead or (not St.taint and not St.refs):
                continue
            t = blk["t"]
            k = t[0]
            if k == "call":
                cc = Call(root, bb, t)
                if gf._call(root, cc, St, None) == gf.SINK:
                    continue
                if cc.target is not None and cc.target != c.bb:
                    stack.append((cc.target, St))
            elif k == "switch":
                for s_, ns in gf._switch_succ(root, t, St):
                    if ns is not None:
                        stack.append((s_, ns.copy()))
            elif k == "goto":
                stack.append((t[1], St))
            elif k in ("drop", "assert"):
                tgt = t[2] if k == "drop" else t[5]
                if isinstance(tgt, int):
                    stack.append((tgt, St))
    return ages, root


def sink_params_as_origins(S, f):
    out = []
    have = {o.param for o in gf.param_origins(f)}
    for o in gf.param_origins(f):
        out.append(o)
    for i in sorted(S.SINK.get(f.path, ())):
        if i not in have:
            out.append(gf.Origin(f, None, None, f.local_ty(i), param=i))
    return out


def _origin_bb(o):
    return None if o.call is None else o.call.bb


def skip_events(S, f, origin, older, max_states=60000, entry_dirt=frozenset()):
    """Follow the green of `origin` to the calls that hand it to a sink or keep it.

    older(call bb, arg position) -> True when the value passed there was taken before `origin` (its own origins
    dominate this one) - pushing it is in order; False when it was taken later; None when unknown (no origin reaches
    it: built from nothing).
    Returns (skips, keeps):
      skips {(sink name, frozenset(dirt sources)): path}   one entry per distinct way the value reaches a sink
      keeps {(keeper, older node skipped in between): path}   value kept in the tree after an older node was skipped
    """
    c = origin.call
    S0 = gf.State()
    if c is None:
        S0.taint[origin.param] = origin.comp
        stack = [(0, S0, (0,), frozenset(entry_dirt), None)]
    else:
        S0.taint[place_local(c.dest)] = origin.comp
        d0 = S.call_items(f, c, frozenset(), sink_dirt=False)
        stack = [(c.target, S0, (c.bb, c.target), d0, None)]
    seen = set()
    skips, keeps = {}, {}
    n = 0
    while stack:
        bb, St, path, dirt, oldskip = stack.pop()
        key = (bb, dirt, oldskip, St.freeze())
        if key in seen:
            continue
        seen.add(key)
        n += 1
        if n > max_states:
            raise RuntimeError("state limit in %s" % f.path)
        if c is not None and bb == c.bb and len(path) > 2:
            continue        # back at the origin call: a fresh value
        St = St.copy()
        blk = f.blocks[bb]
        sunk = False
        for st in blk["s"]:
            if gf._stmt(f, st, St) == gf.SINK:
                sunk = True
                break
        if sunk:
            if oldskip is not None:
                keeps.setdefault(("stored", oldskip), list(path))
            continue
        if not St.taint and not St.refs:
            continue
        dirt = stmt_items(f, blk, dirt)
        t = blk["t"]
        k = t[0]
        if k == "ret":
            if 0 in St.taint and oldskip is not None:
                keeps.setdefault(("returned", oldskip), list(path))
            continue
        if k == "call":
            cc = Call(f, bb, t)
            sinkpos = S.sink_args(f, cc)
            held = [j for j, a in enumerate(cc.args) if op_place(a) is not None and St.holds(op_place(a))]
            if held and any(j in sinkpos for j in held):
                skips.setdefault((last_seg(cc.path), frozenset(it[0] for it in dirt)), list(path))
                continue
            S2 = St.copy()
            r = gf._call(f, cc, S2, None)
            if r == gf.SINK:
                if oldskip is not None:
                    keeps.setdefault((last_seg(cc.path), oldskip), list(path))
                continue
            # effect of the call on the queue
            nd = S.call_items(f, cc, dirt, sink_dirt=False)
            no = oldskip
            for j in sinkpos:
                o = older(cc.bb, j)
                if o is True:
                    no = no or ("%s(%s)" % (last_seg(cc.path), f.local_name(op_local(cc.args[j])) or "arg%d" % j))
                elif o is False:
                    nd = nd | {("%s of a node taken later" % last_seg(cc.path), None, None)}
            if cc.target is not None:
                stack.append((cc.target, S2, path + (cc.target,), nd, no))
            continue
        if k == "switch":
            by_succ = {}
            for s_, its in switch_items(f, bb, t, dirt):
                by_succ[s_] = by_succ.get(s_, frozenset()) | its
            for s_, ns in gf._switch_succ(f, t, St):
                if ns is not None:
                    stack.append((s_, ns.copy(), path + (s_,), by_succ.get(s_, dirt), oldskip))
            continue
        if k == "goto":
            stack.append((t[1], St, path + (t[1],), dirt, oldskip))
            continue
        if k in ("drop", "assert"):
            tgt = t[2] if k == "drop" else t[5]
            if isinstance(tgt, int):
                stack.append((tgt, St, path + (tgt,), dirt, oldskip))
            continue
    return skips, keeps


def sink_reach(S, f, origins):
    """{(call bb, arg position): [origins whose value may be passed there]} for the sink calls of f."""
    out = {}
    for o in origins:
        c = o.call
        S0 = gf.State()
        if c is None:
            S0.taint[o.param] = o.comp
            stack = [(0, S0)]
        else:
            S0.taint[place_local(c.dest)] = o.comp
            stack = [(c.target, S0)]
        seen = set()
        n = 0
        while stack:
            bb, St = stack.pop()
            key = (bb, St.freeze())
            if key in seen or bb is None:
                continue
            seen.add(key)
            n += 1
            if n > 60000:
                raise RuntimeError("state limit in %s" % f.path)
            St = St.copy()
            blk = f.blocks[bb]
            if any(gf._stmt(f, st, St) == gf.SINK for st in blk["s"]):
                continue
            if not St.taint and not St.refs:
                continue
            t = blk["t"]
            k = t[0]
            if k == "call":
                cc = Call(f, bb, t)
                sinkpos = S.sink_args(f, cc)
                hit = False
                for j, a in enumerate(cc.args):
                    if j in sinkpos and op_place(a) is not None and St.holds(op_place(a)):
                        out.setdefault((bb, j), []).append(o)
                        hit = True
                if hit:
                    continue
                if gf._call(f, cc, St, None) == gf.SINK:
                    continue
                if cc.target is not None and not (c is not None and cc.target == c.bb):
                    stack.append((cc.target, St))
            elif k == "switch":
                for s_, ns in gf._switch_succ(f, t, St):
                    if ns is not None:
                        stack.append((s_, ns.copy()))
            elif k == "goto":
                stack.append((t[1], St))
            elif k in ("drop", "assert"):
                tgt = t[2] if k == "drop" else t[5]
                if isinstance(tgt, int):
                    stack.append((tgt, St))
    return out


def analyse(S, f, F=None):
    """[(origin, skips, keeps)] for the origins of f that reach a sink or are kept after an older skip."""
    origins = gf.origins(f) + sink_params_as_origins(S, f)
    up_origins, bad_callers = closure_origins(S, F, f) if F is not None else ([], set())
    origins = origins + up_origins
    entry_dirt = {o: frozenset(("trivia pending when %s runs the closure" % b, None, None) for b in bad_callers) for o in up_origins}
    ages, root = capture_ages(S, F, f, up_origins) if up_origins else ({}, None)
    up_ids = {id(o): o.comp for o in up_origins}
    if not origins:
        return []
    if not any(S.sink_args(f, c) for c in f.calls()):
        return []
    reach = sink_reach(S, f, origins)
    res = []
    for o in origins:
        ob = _origin_bb(o)

        def older(bb, j, o=o, ob=ob):
            srcs = reach.get((bb, j))
            if not srcs:
                return None
            if any(x is o for x in srcs):
                return None
            if id(o) in up_ids and all(id(x) in up_ids for x in srcs) and root is not None:
                # both are captured by the closure: the enclosing routine took them in some order
                a_o = ages.get(up_ids[id(o)])
                a_x = [ages.get(up_ids[id(x)]) for x in srcs]
                if a_o is None or None in a_x:
                    return None
                return all(xb != a_o and root.dominates(xb, a_o) for xb in a_x)
            if ob is None:
                return False        # nothing is older than a parameter
            for x in srcs:
                xb = _origin_bb(x)
                if xb is None:
                    continue
                if xb == ob or not f.dominates(xb, ob):
                    return False
            return True
        skips, keeps = skip_events(S, f, o, older, entry_dirt=entry_dirt.get(o, frozenset()))
        if skips or keeps:
            res.append((o, skips, keeps))
    return res
