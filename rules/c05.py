"""C05 - behaviour invariant under optimisation configuration (clause: the reorder pass may move
or delete only calls to functions declared side-effect free)."""
import os
import re

from .guards import prov, op_prov, bool_condition, bool_edge_value, switch_edges
from .lib import op_local, op_const, place_local, rvalue_operands, op_place, fn_key

EXPLANATION = (
    "Decides the structural clause of C05: the statement-reordering pass moves or deletes a call only "
    "if the callee is in the moveable set (gate: call_can_be_moved is `moveable_functions.contains`, "
    "the `immovable` flag is set on its false edge, stays set, and every statement_to_move.push is "
    "dominated by `!immovable`), and every name in the default/minimal moveable lists (string constants "
    "and format templates read from MIR) resolves to an `extern fn` in corelib/src declared `nopanic` "
    "with no implicit parameters. Semantic preservation by each rewrite is not decided.")
ASSUMPTIONS = ["an extern fn declared nopanic with no implicits cannot panic, consume gas or touch a builtin",
               "ModuleHelper::core(..).submodule(..).extern_function_id(..) resolves `a::b::f` to corelib/src/a/b.cairo"]
EXHAUSTIVE = True
CRATES = ["cairo_lang_lowering"]


def decode_template(hexs):
    b = bytes.fromhex(hexs)
    out = []
    i = 0
    while i < len(b):
        n = b[i]
        i += 1
        if n == 0 and i == len(b):
            break
        if n & 0xC0 == 0xC0:
            out.append("{}")
            # optional fields
            if n & 1:
                i += 4
            if n & 2:
                i += 2
            if n & 4:
                i += 2
            if n & 8:
                i += 2
        elif n == 0x80:
            ln = b[i] | (b[i + 1] << 8)
            i += 2
            out.append(b[i:i + ln].decode("utf-8", "replace"))
            i += ln
        else:
            out.append(b[i:i + n].decode("utf-8", "replace"))
            i += n
    return "".join(out)


def moveable_names(fn):
    """Names produced by a function building a moveable list: literal &str elements plus format
    templates expanded over the literal list that feeds their argument."""
    strs_of_local = {}
    for i, j, st in fn.stmts():
        if st[0] == "a" and isinstance(st[1], int) and st[2][0] == "use":
            c = op_const(st[2][1])
            if c and c[0] == "str":
                strs_of_local[st[1]] = c[1]
    arrays = []  # (local, [strs])
    for i, j, st in fn.stmts():
        if st[0] == "a" and st[2][0] == "agg" and st[2][1] == "array":
            vals = []
            for o in st[2][3]:
                c = op_const(o)
                if c and c[0] == "str":
                    vals.append(c[1])
                else:
                    l = op_local(o)
                    if l is not None:
                        l0 = fn.resolve_copy(l)
                        if l0 in strs_of_local:
                            vals.append(strs_of_local[l0])
            if vals and len(vals) == len(st[2][3]):
                arrays.append((place_local(st[1]), vals))
    templates = []
    for i, j, st in fn.stmts():
        if st[0] == "a" and st[2][0] == "use":
            c = op_const(st[2][1])
            if c and c[0] == "bytes":
                templates.append(decode_template(c[1]))
    disp_args = [op_local(c.args[0]) for c in fn.calls() if c.name() in ("new_display", "new_debug") and c.args]
    names, lists = [], []
    for l, vals in arrays:
        fl = fn.flows_to(l)
        if any(a in fl for a in disp_args if a is not None):
            lists.append(vals)
        else:
            names.extend(vals)
    # plain string constants passed directly (e.g. vec!["felt252_sub".to_string()])
    for c in fn.calls():
        if c.name() in ("to_string", "to_owned", "from", "into") and c.args:
            k = op_const(c.args[0])
            if k and k[0] == "str":
                names.append(k[1])
            else:
                l = op_local(c.args[0])
                if l is not None and fn.resolve_copy(l) in strs_of_local and not arrays:
                    names.append(strs_of_local[fn.resolve_copy(l)])
    for t in templates:
        if "{}" in t:
            if len(lists) != 1:
                raise ValueError("template %r with %d candidate lists" % (t, len(lists)))
            for v in lists[0]:
                names.append(t.replace("{}", v))
        elif t:
            names.append(t)
    return names


DECL_RE = re.compile(r"extern\s+fn\s+([A-Za-z0-9_]+)")


def extern_decls(text):
    """name -> declaration text up to ';' (comments stripped)."""
    text = re.sub(r"//[^\n]*", "", text)
    out = {}
    for m in DECL_RE.finditer(text):
        end = text.find(";", m.end())
        if end < 0:
            continue
        out.setdefault(m.group(1), text[m.start():end])
    return out


def run(ctx):
    F = ctx.load(CRATES)
    LOW = "cairo_lang_lowering::optimizations::"
    # ---------------- R5.2 table agreement
    dmf = F.find1(LOW + "config::default_moveable_functions")
    ctx.analysed(dmf)
    names = moveable_names(dmf)
    sources = {n: dmf for n in names}
    # every other function that builds an OptimizationConfig with a literal moveable list
    for fn in F.find(LOW + "config::"):
        if fn is dmf or not fn.body:
            continue
        builds = any(st[0] == "a" and st[2][0] == "agg" and st[2][1] == "adt" and
                     st[2][2].endswith("OptimizationConfig") for _, _, st in fn.stmts())
        if builds:
            ctx.analysed(fn)
            for n in moveable_names(fn):
                sources.setdefault(n, fn)
    ctx.floor("moveable function names", len(sources), 16)
    decl_cache = {}
    for name, fn in sorted(sources.items()):
        parts = name.split("::")
        mod, leaf = parts[:-1], parts[-1]
        cands = []
        if mod:
            cands = [os.path.join("corelib", "src", *mod) + ".cairo",
                     os.path.join("corelib", "src", *mod, "mod.cairo")]
        else:
            cands = [os.path.join("corelib", "src", "lib.cairo")]
        decl = None
        used = None
        for rel in cands:
            if not os.path.exists(os.path.join(ctx.repo, rel)):
                continue
            if rel not in decl_cache:
                decl_cache[rel] = extern_decls(ctx.src(rel))
            if leaf in decl_cache[rel]:
                decl, used = decl_cache[rel][leaf], rel
                break
        if decl is None:
            ctx.ob("R5.2", name, False, "moveable function `%s` does not resolve to an extern fn in %s" % (name, cands),
                   fn.where())
            continue
        tail = decl[decl.rfind(")") - 200 if False else 0:]
        nopanic = re.search(r"\bnopanic\b", decl) is not None
        m = re.search(r"\bimplicits\s*\(([^)]*)\)", decl)
        implicits = m.group(1).strip() if m else ""
        ok = nopanic and implicits == ""
        msg = "extern fn %s: nopanic=%s implicits=(%s) [%s]" % (leaf, nopanic, implicits, used)
        ctx.ob("R5.2", name, ok, msg, used)
        ctx.sample({"moveable": name, "decl": " ".join(decl.split())[:160]})

    # ---------------- R5.1 gate
    ccm = F.find1(LOW + "reorder_statements::ReorderStatementsContext", name="call_can_be_moved")
    ctx.analysed(ccm)
    bad = []
    n_contains = 0
    for d in ccm.defs().get(0, []):
        if d[0] == "stmt":
            c = op_const(d[3][1]) if d[3][0] == "use" else None
            if c and c[0] == "int" and c[1] == 0:
                continue
            l = op_local(d[3][1]) if d[3][0] == "use" else None
            if l is not None:
                dd = ccm.single_def(ccm.resolve_copy(l))
                if dd and dd[0] == "call" and _is_contains(ccm, dd[2]):
                    n_contains += 1
                    continue
            bad.append("L%s" % d[3][-1] if False else "assignment")
        elif d[0] == "call":
            if _is_contains(ccm, d[2]):
                n_contains += 1
            else:
                bad.append("call " + d[2].name())
    ctx.ob("R5.1", "call_can_be_moved:true-only-from-contains", not bad and n_contains >= 1,
           "every `true` result derives from moveable_functions.contains(..)" if not bad else "other sources of the result: %s" % bad,
           ccm.where())
    # the set consulted is the configured one
    ctor = [f for f in F.find(LOW + "reorder_statements::") if any(
        st[0] == "a" and st[2][0] == "agg" and st[2][1] == "adt" and st[2][2].endswith("ReorderStatementsContext")
        for _, _, st in f.stmts())]
    ok = False
    for f in ctor:
        for _, _, st in f.stmts():
            if st[0] == "a" and st[2][0] == "agg" and st[2][1] == "adt" and st[2][2].endswith("ReorderStatementsContext"):
                idx = st[2][5].index("moveable_functions") if "moveable_functions" in st[2][5] else None
                if idx is not None and "c:priv_movable_function_ids" in op_prov(f, st[2][3][idx]):
                    ok = True
    ctx.ob("R5.1", "ReorderStatementsContext.moveable_functions<-priv_movable_function_ids", ok,
           "the gate's set is the configured moveable set", ctor[0].where() if ctor else "")
    pm = F.tracked_body(LOW + "config::", name="priv_movable_function_ids")
    toks = set()
    for c in pm.calls():
        toks.add(c.name())
    ctx.ob("R5.1", "priv_movable_function_ids<-optimizations().moveable_functions()",
           "moveable_functions" in toks and "optimizations" in toks,
           "the configured set is built from Optimizations::moveable_functions()", pm.where())

    vs = F.find1(LOW + "reorder_statements::ReorderStatementsContext", "Analyzer", name="visit_stmt")
    ctx.analysed(vs)
    L = [i for i in range(len(vs.locals)) if vs.local_name(i) == "immovable"]
    if len(L) != 1:
        ctx.ob("R5.1", "visit_stmt:immovable", False, "local `immovable` not found", vs.where())
        return
    L = L[0]
    set_true, set_false, other = [], [], []
    for d in vs.defs().get(L, []):
        if d[0] != "stmt":
            other.append(d)
            continue
        rv = d[3]
        if rv[0] == "use" and op_const(rv[1]) and op_const(rv[1])[0] == "int":
            (set_true if op_const(rv[1])[1] == 1 else set_false).append(d[1])
        elif rv[0] == "bin" and rv[1] == "BitOr" and L in (op_local(rv[2]), op_local(rv[3])):
            pass
        else:
            other.append(d)
    ctx.ob("R5.1", "visit_stmt:immovable-monotone", not other,
           "`immovable` is only assigned constants or `|=`", vs.where())
    calls = vs.calls_to("call_can_be_moved")
    ok = False
    msg = "call_can_be_moved not called exactly once"
    if len(calls) == 1:
        c = calls[0]
        # the Call arm of the match on `stmt`
        call_arm = None
        for bb, t in vs.switches():
            info, _ = bool_condition(vs, bb)
            if info and info[0] == "disc" and info[2].endswith("objects::Statement"):
                adt = ctx.load(CRATES).adts.get(info[2])
                idx = [v["name"] for v in adt["variants"]].index("Call")
                for v_, s in switch_edges(vs, bb):
                    if v_ == idx:
                        call_arm = s
                break
        pushes = [p.bb for p in vs.calls() if p.name() == "push" and "f:statement_to_move" in op_prov(vs, p.args[0])]
        # test on the result
        tsw = None
        for bb, t in vs.switches():
            info, flip = bool_condition(vs, bb)
            if info and info[0] == "call" and info[1] is c or (info and info[0] == "call" and info[1].bb == c.bb):
                tsw = (bb, flip)
        if call_arm is None or tsw is None or not pushes:
            msg = "cannot locate Call arm / result test / push sites (%s, %s, %d)" % (call_arm, tsw, len(pushes))
        else:
            bb, flip = tsw
            false_succ = [s for s in vs.succ(bb) if (bool_edge_value(vs, bb, s) ^ flip) is False]
            a = vs.must_pass(call_arm, pushes, {c.bb})
            sw_on_L = [b for b, t in vs.switches() if op_local(t[1]) is not None and vs.resolve_copy(op_local(t[1])) == L]
            b_ok = bool(false_succ) and all(vs.must_pass(s, sw_on_L, set(set_true)) for s in false_succ)
            c_ok = all(not (vs.reachable_blocks(s) & set(set_false)) for s in false_succ)
            d_ok = True
            for p in pushes:
                dom_ok = False
                for sb in sw_on_L:
                    fs = [s for s in vs.succ(sb) if bool_edge_value(vs, sb, s) is False]
                    if fs and all(vs.dominates(s, p) for s in fs[:1]):
                        dom_ok = True
                d_ok = d_ok and dom_ok
            ok = a and b_ok and c_ok and d_ok and len(sw_on_L) >= 1
            msg = ("calls pass the gate=%s, false edge sets immovable=%s, never cleared=%s, pushes under !immovable=%s"
                   % (a, b_ok, c_ok, d_ok))
            ctx.floor("statement_to_move.push sites", len(pushes), 2)
    ctx.ob("R5.1", "visit_stmt:gate", ok, msg, vs.where())

    # ---------------- positive controls (in-memory)
    d = extern_decls("pub extern fn u128_overflowing_add(\n lhs: u128, rhs: u128,\n) -> Result<u128, u128> implicits(RangeCheck) nopanic;")
    m = re.search(r"\bimplicits\s*\(([^)]*)\)", d["u128_overflowing_add"])
    ctx.control("extern with implicits(RangeCheck) is rejected", m.group(1).strip() != "")
    ctx.control("template decoding", decode_template("09696e74656765723a3ac0095f776964655f6d756c00") == "integer::{}_wide_mul")
    _specialization_traversals(ctx, F)


def _is_contains(fn, c):
    if c.name() != "contains":
        return False
    return any("f:moveable_functions" in op_prov(fn, a) for a in c.args[:1])


def _specialization_traversals(ctx, F):
    """R5.3: the stack-driven traversals of a `SpecializationArg` tree agree on the order of the leaves.

    A specialized function's parameters are the `NotSpecialized` leaves of its argument tree in traversal order
    (signature), the caller's remaining inputs are matched to them in traversal order (the specialized body's
    builder), and a re-specialization fills them in traversal order (const folding).  Each traversal is a
    `while let Some(x) = stack.pop()` loop; leaves come out first-to-last exactly when children are pushed in reverse.
    A traversal that pushes the children of an aggregate in iteration order visits them last-to-first: the constant
    lands in the wrong member and run-time values shift - only when the optimisation that specializes is enabled."""
    TY = "SpecializationArg"
    from .guards import natural_loops

    def slice_calls(f, ops, stop=("pop",), limit=400):
        """Names of the calls the operands' values are computed by, not looking behind a `pop` (what comes off the stack
        was put there by other pushes) and not following mutation through `&mut` arguments."""
        names, todo, seen = set(), list(ops), set()
        while todo and len(seen) < limit:
            o = todo.pop()
            pl = op_place(o)
            if pl is None:
                continue
            l = place_local(pl)
            if l in seen:
                continue
            seen.add(l)
            for d in f.defs().get(l, []):
                if d[0] == "stmt":
                    rv = d[3]
                    if rv[0] == "ref":
                        todo.append(["c", rv[1]])
                    else:
                        todo.extend(rvalue_operands(rv))
                elif d[0] == "call":
                    c = d[2]
                    names.add(c.name())
                    if c.name() not in stop:
                        todo.extend(c.args)
        return names
    n_trav = n_push = 0
    for p, f in sorted(F.fns.items()):
        if not f.body or f.crate != "cairo_lang_lowering":
            continue
        # stacks: locals of type Vec<.. SpecializationArg ..> that are popped
        stacks = set()
        pop_blocks = set()
        for c in f.calls():
            if c.name() == "pop" and c.args and "alloc::vec::Vec" in c.path:
                l = op_local(c.args[0])
                if TY in (f.local_ty(l) or ""):
                    d = f.single_def(l)
                    if d and d[0] == "stmt" and d[3][0] == "ref":
                        stacks.add(place_local(d[3][1]))
                        pop_blocks.add(c.bb)
        if not stacks:
            continue
        n_trav += 1
        ctx.analysed(f)
        loops = natural_loops(f)
        loops = loops if isinstance(loops, dict) else dict(loops)

        def innermost(bb):
            best = None
            for h, body in loops.items():
                if bb in body and (best is None or len(body) < len(loops[best])):
                    best = h
            return best
        pop_loops = {innermost(b) for b in pop_blocks}
        for c in f.calls():
            if c.name() not in ("push", "extend", "extend_from_slice", "append") or not c.args:
                continue
            l = op_local(c.args[0])
            d = f.single_def(l) if l is not None else None
            if not (d and d[0] == "stmt" and d[3][0] == "ref" and place_local(d[3][1]) in stacks):
                continue
            if c.name() == "push":
                h = innermost(c.bb)
                if h is None or h in pop_loops:
                    continue          # one child (snapshot / enum payload / a marker): no order involved
                if any(ph is not None and ph != h and ph in loops[h] for ph in pop_loops):
                    continue          # the stack is drained inside this loop before the next push: one root at a time
                nexts = [x for x in f.calls() if x.bb in loops[h] and x.name() == "next" and innermost(x.bb) == h]
                names = set()
                for x in nexts:
                    names |= slice_calls(f, x.args)
                what = "the loop that pushes the children iterates"
            else:
                names = slice_calls(f, c.args[1:])
                if not ({"iter", "iter_mut", "into_iter", "values", "drain", "zip", "zip_eq"} & names):
                    continue
                what = "the children handed to `%s` are taken" % c.name()
            n_push += 1
            ok = "rev" in names
            ctx.ob("R5.3", "%s|stack-%s@%d" % (fn_key(p), c.name(), n_push), ok,
                   "%s in reverse, so the children are popped first-to-last" % what if ok else
                   "%s in iteration order: the children of an aggregate are popped last-to-first, unlike in the sibling traversals of "
                   "SpecializationArg trees (parameters, inputs and re-specialization disagree on the leaf order)" % what, c.where())
        # the initial fill of the stack
        for st_l in stacks:
            for d in f.defs().get(st_l, []):
                if d[0] == "call" and d[2].name() in ("collect", "collect_vec", "from_iter"):
                    names = slice_calls(f, d[2].args)
                    n_push += 1
                    ok = "rev" in names
                    ctx.ob("R5.3", "%s|stack-init@%d" % (fn_key(p), n_push), ok,
                           "the traversal stack is initialised from the reversed top-level arguments" if ok else
                           "the traversal stack is initialised in iteration order: the top-level arguments are popped last-to-first", d[2].where())
    ctx.floor("stack-driven traversals of SpecializationArg trees", n_trav, 2)
    ctx.floor("ordered pushes on those stacks", n_push, 4)
