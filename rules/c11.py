"""C11 - formatting changes layout only (clause: the formatter emits every token except the
enumerated optional kinds, and every comment; sorting/merging is gated on its options)."""
import re

from .guards import (prov, op_prov, bool_condition, bool_edge_value, switch_edges, succ_for_value, natural_loops,
                     innermost_loop)
from .lib import (fn_key, op_local, op_const, place_local, place_fields, rvalue_operands, rvalue_places, last_seg,
                  AnchorError)

EXPLANATION = (
    "Decides the structural clause of C11: (R11.1) in the formatter's tree walk every iteration over the children "
    "passes format_node(child) or the zero-width test; (R11.2) format_terminal formats leading and trailing trivia "
    "on every path and emits the token unless should_skip_terminal holds; (R11.3) format_trivia matches every "
    "trivium kind, each comment kind reaches LineBuilder::push_comment with the trivium's text, skipped tokens and "
    "nodes are emitted; (R11.4) should_skip_terminal can return true only under an equality test of the node's "
    "kind with one of TerminalComma, TerminalEmpty, TerminalSemicolon, TerminalColonColon (the syntactically "
    "optional tokens) - a fifth kind is a violation; (R11.5) merge_use_items / sort_items_sections / "
    "sort_inner_use_path are called only under their configuration flags; (R11.6) nodes whose formatting is "
    "ignored are emitted with their original text; (R11.7) a routine that rewrites a list of child nodes and selects, "
    "drops, duplicates or re-parses nodes does so only under a has_only_whitespace_trivia guard that covers every "
    "affected node: ranging over the whole rewritten list, or per node with the unguarded nodes kept as they are. "
    "Idempotence and re-parsability of the output are not decided.")
ASSUMPTIONS = ["LineBuilder::push_str / push_comment append their argument to the output",
               "the four skippable kinds are the optional tokens of the grammar (trailing comma, empty terminal, semicolon after a block-like statement, turbofish `::`)"]
EXHAUSTIVE = True
CRATES = ["cairo_lang_formatter"]
FI = "cairo_lang_formatter::formatter_impl::FormatterImpl"
ALLOWED_SKIP = {"TerminalComma": "trailing comma of the enumerated list kinds",
                "TerminalEmpty": "empty terminal (no text)",
                "TerminalSemicolon": "semicolon after a block-like statement expression that is not last",
                "TerminalColonColon": "turbofish `::` of the last path segment in a type position"}


def const_kind(fn, op):
    k = op_const(op)
    l = op_local(op)
    if k is not None and k[0] == "promoted":
        pb = fn.const_of_promoted(op[2])
        if pb:
            for bl in pb["blocks"]:
                for st in bl["s"]:
                    if st[0] == "a" and st[2][0] == "agg" and st[2][1] == "adt" and st[2][2].endswith("kind::SyntaxKind"):
                        return st[2][4]
        return None
    if l is not None:
        l0 = fn.resolve_copy(l)
        d = fn.single_def(l0)
        if d and d[0] == "stmt":
            rv = d[3]
            if rv[0] == "agg" and rv[1] == "adt" and rv[2].endswith("kind::SyntaxKind"):
                return rv[4]
            if rv[0] == "use" and op_local(rv[1]) != l0:
                return const_kind(fn, rv[1])
    return None


def kind_eq_tests(fn, names=None):
    """[(bb, K, true_succ)] for switches on `self.kind(db) == SyntaxKind::K` and for the arms of a `match self.kind(db)`
    (not parent_kind)."""
    out = []
    for bb, t in fn.switches():
        si = fn.switch_info(bb)
        if names and si and si[0] == "disc" and (si[2] or "").endswith("kind::SyntaxKind"):
            toks = prov(fn, place_local(si[1]), 8)
            if "c:kind" in toks and "c:parent_kind" not in toks and "c:get_children" not in toks and "c:parent" not in toks:
                by = {}
                for v, s_ in t[2]:
                    by.setdefault(s_, []).append(v)
                for s_, vs in by.items():
                    if s_ == t[3]:
                        continue
                    for v in vs:
                        if isinstance(v, int) and v < len(names):
                            out.append((bb, names[v], s_))
            continue
        info, flip = bool_condition(fn, bb)
        if not info or info[0] != "call" or info[1].name() not in ("eq", "ne"):
            continue
        c = info[1]
        if not ("SyntaxKind" in c.path or any("SyntaxKind" in g for g in c.gargs)):
            continue
        K = None
        other = None
        for a, b in ((c.args[0], c.args[1]), (c.args[1], c.args[0])):
            k = const_kind(fn, a)
            if k:
                K, other = k, b
        if K is None:
            continue
        toks = op_prov(fn, other, 8)
        if "c:kind" not in toks or "c:parent_kind" in toks or "c:get_children" in toks or "c:parent" in toks:
            continue
        neg = c.name() == "ne"
        for s in fn.succ(bb):
            v = bool_edge_value(fn, bb, s)
            if v is not None and ((v ^ flip) ^ neg):
                out.append((bb, K, s))
    return out


def run(ctx):
    F = ctx.load(CRATES, adts_only=["cairo_lang_syntax"])

    # ---------------- R11.1 every child is formatted
    fint = F.find1(FI, name="format_internal")
    ctx.analysed(fint)
    fmt_calls = [c.bb for c in fint.calls() if c.name() == "format_node"]
    width_true = []
    for bb, t in fint.switches():
        info, flip = bool_condition(fint, bb)
        if info and info[0] == "call" and info[1].name() == "eq" and "TextWidth" in (info[1].path + "".join(info[1].gargs)):
            toks = set()
            for a in info[1].args:
                toks |= op_prov(fint, a, 6)
            if "c:width" in toks and "c:default" in toks:
                width_true += [s for s in fint.succ(bb) if (bool_edge_value(fint, bb, s) ^ flip) is True]
    ok = False
    msg = "format_node call / zero-width test not found"
    if len(fmt_calls) == 1 and width_true:
        lp = innermost_loop(fint, fmt_calls[0])
        if lp:
            h, body = lp
            avoid = set(fmt_calls) | set(width_true)
            seen = set()
            stack = [s for s in fint.succ(h) if s in body and s not in avoid]
            bypass = False
            while stack:
                x = stack.pop()
                if x in seen:
                    continue
                seen.add(x)
                for s in fint.succ(x):
                    if s == h:
                        bypass = True
                    elif s in body and s not in avoid:
                        stack.append(s)
            ok = not bypass
            msg = "every iteration over the children passes format_node(child) or the zero-width test" if ok else \
                "an iteration of the children loop can complete without formatting the child"
            # the formatted node is the loop's child
            c = [x for x in fint.calls() if x.name() == "format_node"][0]
            ok = ok and ("c:next" in op_prov(fint, c.args[1], 8))
    ctx.ob("R11.1", "format_internal:every-child", ok, msg, fint.where())

    # ---------------- R11.2 terminals
    ft = F.find1(FI, name="format_terminal")
    ctx.analysed(ft)
    tr = [c for c in ft.calls() if c.name() == "format_trivia"]
    rets = ft.return_blocks()
    flags = sorted(str(op_const(c.args[-1])[1]) if op_const(c.args[-1]) else "?" for c in tr)
    ctx.ob("R11.2", "format_terminal:both-trivia", len(tr) == 2 and flags == ["0", "1"] and all(ft.must_pass(0, rets, {c.bb}) for c in tr),
           "leading and trailing trivia are formatted on every path (is_leading flags %s)" % flags, ft.where())
    # which children: leading = children[0], trailing = children[2], token = children[1]
    tok = [c for c in ft.calls() if c.name() == "format_token"]
    skip_true = []
    for bb, t in ft.switches():
        info, flip = bool_condition(ft, bb)
        if info and info[0] == "call" and info[1].name() == "should_skip_terminal":
            skip_true += [s for s in ft.succ(bb) if (bool_edge_value(ft, bb, s) ^ flip) is True]
    ctx.ob("R11.2", "format_terminal:token-unless-skip", len(tok) == 1 and bool(skip_true) and
           ft.must_pass(0, rets, {tok[0].bb} | set(skip_true)),
           "the token is emitted on every path except the should_skip_terminal == true edge", ft.where())

    # ---------------- R11.3 trivia
    ftr = F.find1(FI, name="format_trivia")
    ctx.analysed(ftr)
    sw = None
    for bb, t in ftr.switches():
        info, _ = bool_condition(ftr, bb)
        if info and info[0] == "disc" and info[2].endswith("ast::Trivium"):
            sw = (bb, info[2])
    if sw is None:
        ctx.ob("R11.3", "format_trivia:match", False, "match on Trivium not found", ftr.where())
    else:
        bb, adt = sw
        F2 = ctx.load(CRATES, adts_only=["cairo_lang_syntax"])
        names = [v["name"] for v in F2.adts[adt]["variants"]]
        t = ftr.blocks[bb]["t"]
        other_ok = ftr.is_unreachable_block(t[3]) or len(t[2]) == len(names)
        ctx.ob("R11.3", "format_trivia:exhaustive", other_ok, "every trivium kind has its own arm (no catch-all)", ftr.where())
        want = {"SingleLineComment": "push_comment", "SingleLineDocComment": "push_comment", "SingleLineInnerComment": "push_comment",
                "Skipped": "format_token", "SkippedNode": "format_node"}
        lp = innermost_loop(ftr, bb)
        hdr = {lp[0]} if lp else set()
        for i, nm in enumerate(names):
            s = succ_for_value(ftr, bb, i)
            region = ftr.reachable_blocks(s, avoid={bb} | hdr)
            calls = set(c.name() for c in ftr.calls() if c.bb in region)
            if nm in want:
                ok = want[nm] in calls
                detail = ""
                if ok and want[nm] == "push_comment":
                    pc = [c for c in ftr.calls() if c.bb in region and c.name() == "push_comment"][0]
                    ok = "c:get_text" in op_prov(ftr, pc.args[1], 10)
                    detail = " with the trivium's text"
                ctx.ob("R11.3", "format_trivia:" + nm, ok, "%s reaches %s%s" % (nm, want[nm], detail), ftr.where())
            else:
                ctx.ob("R11.3", "format_trivia:" + nm, True, "%s carries no code or comment text" % nm, ftr.where())

    # ---------------- R11.4 skippable kinds
    sst = [f for f in F.find("cairo_lang_formatter::node_properties::", name="should_skip_terminal") if f.kind == "AssocFn" and f.body]
    if len(sst) != 1:
        raise AnchorError("should_skip_terminal resolves to %d functions" % len(sst))
    sst = sst[0]
    ctx.analysed(sst)
    SK = F.adts.get("cairo_lang_syntax::node::kind::SyntaxKind")
    kind_names = [v["name"] for v in SK["variants"]] if SK else None
    tests = kind_eq_tests(sst, kind_names)
    true_blocks = []
    for i, j, st in sst.stmts():
        if st[0] == "a" and place_local(st[1]) == 0 and isinstance(st[1], int) and st[2][0] == "use":
            k = op_const(st[2][1])
            if k and k[0] == "int" and k[1] == 1:
                true_blocks.append(i)
            elif k is None:
                true_blocks.append(i)   # a computed result: must also be under a kind test
    for c in sst.calls():
        if place_local(c.dest) == 0 and isinstance(c.dest, int):
            true_blocks.append(c.bb)    # a computed boolean result
    kinds_used = set()
    for b in sorted(set(true_blocks)):
        ks = set(K for (bb, K, s) in tests if sst.dominates(s, b))
        kinds_used |= ks
        ctx.ob("R11.4", "should_skip_terminal:true@bb-under-kind-test#%d" % (sorted(set(true_blocks)).index(b) + 1),
               len(ks) >= 1 and ks <= set(ALLOWED_SKIP),
               "a `true` result is returned only under `kind == %s`" % (sorted(ks) or "NO kind test"), sst.where())
    for K in sorted(set(K for _, K, _ in tests)):
        ctx.ob("R11.4", "skippable-kind:" + K, K in ALLOWED_SKIP,
               "terminal kind %s may be skipped: %s" % (K, ALLOWED_SKIP.get(K, "NOT in the enumerated optional tokens")), sst.where())
    ctx.floor("should_skip_terminal true-returning blocks", len(set(true_blocks)), 3)

    # ---------------- R11.9 the optional `;` after a block-like statement is dropped on the word of the parser's table
    # The parser continues an expression statement with the next token exactly when `get_post_operator_precedence(kind)`
    # is Some (try_parse_expr_limited): dropping the `;` in front of such a token glues two statements into one
    # expression.  Whatever decides the drop must therefore be that table applied to the first token of the next
    # statement (or the absence of any token).
    def is_table(fn, c):
        """a function of the parser crate from a terminal kind to an optional precedence (today
        `operators::get_post_operator_precedence`, the test `try_parse_expr_limited` continues an expression on)"""
        if not c.path.startswith("cairo_lang_parser::") or not c.args:
            return False
        l = op_local(c.args[0])
        aty = (fn.local_ty(l) if l is not None else None) or (c.args[0][3] if c.args[0][0] == "k" and len(c.args[0]) > 3 else "")
        dty = fn.local_ty(place_local(c.dest)) or ""
        return str(aty).endswith("kind::SyntaxKind") and dty.startswith("core::option::Option<usize")
    table_names = set()

    def consults(fn):
        """calls of the table in fn whose argument is the kind of a token"""
        cs = [c for c in fn.calls() if is_table(fn, c) and "c:kind" in op_prov(fn, c.args[0], 8)]
        table_names.update(c.name() for c in cs)
        return cs

    def closure_arg(fn, c):
        for a in c.args:
            l = op_local(a)
            d = fn.single_def(fn.resolve_copy(l)) if l is not None else None
            if d and d[0] == "stmt" and d[3][0] == "agg" and d[3][1] == "closure":
                g = F.fns.get(d[3][2])
                if g is not None:
                    yield g
    semi = [(bb, s_) for bb, K, s_ in tests if K == "TerminalSemicolon"]
    n_consult = 0
    srcs = []
    for i, j, st in sst.stmts():
        if st[0] == "a" and place_local(st[1]) == 0 and isinstance(st[1], int):
            k = op_const(st[2][1]) if st[2][0] == "use" else None
            if k and k[0] == "int" and k[1] == 0:
                continue
            srcs.append((i, "const-true" if (k and k[0] == "int") else "computed", st, None))
    for c in sst.calls():
        if place_local(c.dest) == 0 and isinstance(c.dest, int):
            srcs.append((c.bb, "call", None, c))
    for b, how, st, c in srcs:
        if not any(sst.dominates(s_, b) for _, s_ in semi):
            continue
        ok = False
        why = ""
        if how == "call":
            consults(sst)
            ptoks = set().union(*[op_prov(sst, a, 10) for a in c.args] or [set()])
            direct = is_table(sst, c) or any("c:" + n in ptoks for n in table_names)
            via = [g for g in closure_arg(sst, c) if consults(g) and any("c:" + n in prov(g, 0, 10) for n in table_names)]
            ok = bool(direct and consults(sst)) or bool(via)
            why = "result of %s(..)" % c.name()
        elif how == "computed":
            toks = set()
            for o in rvalue_operands(st[2]):
                toks |= op_prov(sst, o, 12)
            ok = bool(consults(sst)) and any("c:" + n in toks for n in table_names)
            why = "computed result"
        else:
            # a constant `true`: only where the next statement has no token at all (the None edge of `tokens().next()`)
            why = "constant true"
            for sb, t in sst.switches():
                si = sst.switch_info(sb)
                if not si or si[0] != "disc" or "Option" not in (si[2] or ""):
                    continue
                toks = prov(sst, place_local(si[1]), 8)
                if not ({"c:next", "c:first", "c:tokens"} & toks) or "c:cast" in toks:
                    continue
                none_succ = [s2 for v, s2 in t[2] if v == 0] or ([t[3]] if all(v != 0 for v, _ in t[2]) else [])
                if any(sst.dominates(s2, b) for s2 in none_succ) and not any(sst.dominates(s2, b) for v, s2 in t[2] if v == 1):
                    ok = True
        n_consult += 1 if ok and how != "const-true" else 0
        ctx.ob("R11.9", "semicolon-drop:%s#bb-order-%d" % (how, sorted(x[0] for x in srcs).index(b) + 1), ok,
               "the `;` after a block-like statement is dropped on the word of get_post_operator_precedence(kind of the next statement's first token) (%s)" % why if ok else
               "a `;` after a block-like statement can be dropped (%s) without consulting get_post_operator_precedence on the first token of the next statement: "
               "the parser continues an expression with exactly those tokens, so the two statements are glued into one" % why, sst.where(sst.blocks[b].get("l") if isinstance(sst.blocks[b], dict) and sst.blocks[b].get("l") else None))
    ctx.ob("R11.9", "semicolon-drop:consults-the-parser-table", n_consult >= 1 or not semi,
           "%d result(s) under `kind == TerminalSemicolon` derive from the parser's post-operator table" % n_consult if n_consult or not semi else
           "no result under `kind == TerminalSemicolon` derives from get_post_operator_precedence", sst.where())

    # ---------------- R11.5 options gate sorting / merging
    for callee, flag in (("merge_use_items", "merge_use_items"), ("sort_items_sections", "sort_module_level_items"),
                         ("sort_inner_use_path", "sort_module_level_items")):
        cs = [c for p, f in F.fns.items() if f.body and f.crate == "cairo_lang_formatter" for c in f.calls() if c.name() == callee]
        ok = bool(cs)
        for c in cs:
            f = c.fn
            gated = False
            for bb, t in f.switches():
                info, flip = bool_condition(f, bb)
                if info and info[0] == "place" and place_fields(info[1])[-1:] == [flag]:
                    for s in f.succ(bb):
                        if (bool_edge_value(f, bb, s) ^ flip) is True and f.dominates(s, c.bb):
                            gated = True
            ok = ok and gated and last_seg(f.root) == "format_internal"
        ctx.ob("R11.5", callee + ":gated-by-" + flag, ok, "%s is called only under config.%s (%d call sites)" % (callee, flag, len(cs)),
               cs[0].where() if cs else "")

    # ---------------- R11.6 ignored formatting keeps the original text
    fn = F.find1(FI, name="format_node")
    ctx.analysed(fn)
    gt = [c for c in fn.calls() if c.name() == "get_text"]
    ok = False
    for c in gt:
        fl = fn.flows_to(place_local(c.dest))
        if any(x.name() in ("push_str", "push_str_without_break_points", "push_unformatted") or "push" in x.name()
               for x in fn.calls() if any(op_local(a) in fl for a in x.args)):
            ok = True
    ctx.ob("R11.6", "format_node:ignored-nodes-keep-text", ok, "a node with ignored formatting is emitted through get_text", fn.where())
    _rewriters(ctx, F)
    _comma_symmetry(ctx, F, sst, kind_names)
    from . import glue
    glue.run(ctx, F)
    _controls(ctx, F, sst)


def _controls(ctx, F, sst):
    # a fifth skippable kind: rename one tested kind in a copy of the facts
    import copy
    from .lib import Fn
    d = copy.deepcopy(sst.d)
    n = 0
    for pb in d.get("promoted") or []:
        for bl in pb["blocks"]:
            for st in bl["s"]:
                if st[0] == "a" and st[2][0] == "agg" and st[2][1] == "adt" and st[2][4] == "TerminalEmpty":
                    st[2][4] = "TerminalPub"
                    n += 1
    SK = F.adts.get("cairo_lang_syntax::node::kind::SyntaxKind")
    names = [v["name"] for v in SK["variants"]] if SK else []
    if n == 0 and names:
        # the kinds are tested by a `match`: retarget the arm of TerminalEmpty to TerminalPub
        e, pidx = names.index("TerminalEmpty"), names.index("TerminalPub")
        for bb, t in sst.switches():
            si = sst.switch_info(bb)
            if si and si[0] == "disc" and (si[2] or "").endswith("kind::SyntaxKind"):
                for arm in d["body"]["blocks"][bb]["t"][2]:
                    if arm[0] == e:
                        arm[0] = pidx
                        n += 1
    m = Fn(d, sst.crate)
    ks = set(K for _, K, _ in kind_eq_tests(m, names or None))
    ctx.control("a fifth skippable terminal kind", n >= 1 and "TerminalPub" in ks)


# ------------------------------------------------------------------------------------------------
# R11.7 list rewriters

SELECT_OPS = {"first", "last", "get", "nth", "take", "skip", "filter", "filter_map", "dedup", "dedup_by", "dedup_by_key", "truncate", "pop",
              "remove", "swap_remove", "retain", "split_off", "step_by", "find", "position", "next_back", "take_while", "skip_while", "split_first",
              "split_last", "chunks", "windows"}
WRITE_OPS = {"drain", "clear", "truncate", "retain", "pop", "remove", "swap_remove", "dedup", "split_off"}


def _root_chain(fn, op, depth=12):
    """(root local, [call names]) following the operand back through copies, references, casts and the first argument
    of the calls that produced it."""
    names = []
    l = op_local(op)
    for _ in range(depth):
        if l is None:
            return None, names
        if 1 <= l <= fn.argc:
            return l, names
        d = fn.single_def(l)
        if not d:
            return l, names
        if d[0] == "call":
            c = d[2]
            names.append(c.name())
            if not c.args:
                return l, names
            l = op_local(c.args[0])
            continue
        if d[0] == "stmt":
            rv = d[3]
            if rv[0] in ("use", "cast"):
                o = rv[1] if rv[0] == "use" else rv[2]
                nl = op_local(o)
            elif rv[0] == "ref":
                nl = place_local(rv[1])
            else:
                return l, names
            if nl is None or nl == l:
                return l, names
            l = nl
            continue
        return l, names
    return l, names


def _rewriters(ctx, F):
    from .lib import Call
    n_rw = 0
    for p, g in sorted(F.fns.items()):
        if not g.body or g.crate != "cairo_lang_formatter" or g.kind == "Closure":
            continue
        params = [i for i in range(1, g.argc + 1) if re.match(r"^&(\'\w+ )?mut alloc::vec::Vec<cairo_lang_syntax::node::SyntaxNode<", g.local_ty(i) or "")]
        if not params:
            continue
        P = params[0]
        group = [g] + F.closures_of(g)
        # does it rewrite the list?  (a mutating call on it, or an assignment through the reference)
        writes = []
        for c in g.calls():
            if c.name() in WRITE_OPS and c.args:
                root, _ = _root_chain(g, c.args[0])
                if root == P:
                    writes.append(c)
        assigns = [(i, st) for i, _, st in g.stmts() if st[0] == "a" and not isinstance(st[1], int) and place_local(st[1]) == P and "*" in st[1][1]]
        if not writes and not assigns:
            continue
        n_rw += 1
        ctx.analysed(g)
        first_write = min([c.bb for c in writes] + [i for i, _ in assigns])
        # what it does to individual nodes
        selecting = []
        for h in group:
            for c in h.calls():
                if c.name() in SELECT_OPS and c.args and "SyntaxNode" in (h.local_ty(op_local(c.args[0]) or 0) or ""):
                    selecting.append("%s (%s)" % (c.name(), c.where()))
                if c.name() in ("parse_file", "parse_token_stream") and "Parser" in c.path:
                    selecting.append("re-parse (%s)" % c.where())
        key = "rewriter:%s" % fn_key(p)
        if not selecting:
            ctx.ob("R11.7", key, True, "rewrites the child list by moving whole nodes only (sort / extend / collect of complete collections; no element is "
                   "selected, dropped, duplicated or re-parsed)", g.where())
            continue
        # (a) a guard over the whole list: any/all(has_only_whitespace_trivia) on the list itself, leaving before the first write
        whole = None
        for c in g.calls():
            if c.name() not in ("any", "all") or len(c.args) < 2:
                continue
            fav = g.single_def(g.resolve_copy(op_local(c.args[1]))) if op_local(c.args[1]) is not None else None
            clos = None
            if fav and fav[0] == "stmt" and fav[3][0] == "agg" and fav[3][1] == "closure":
                clos = F.fns.get(fav[3][2])
            if clos is None or not any(x.name() == "has_only_whitespace_trivia" for x in clos.calls()):
                continue
            root, chain = _root_chain(g, c.args[0])
            narrowed = [n for n in chain if n not in ("iter", "deref", "into_iter", "as_slice", "iter_mut", "deref_mut", "borrow", "as_ref")]
            ok_dom = g.dominates(c.bb, first_write)
            whole = (root == P and not narrowed and ok_dom, root, chain, c)
            if whole[0]:
                break
        # (b) a guard per node: has_only_whitespace_trivia(node) whose false edge keeps the node and does not take it apart
        per_node = None
        for c in g.calls():
            if c.name() != "has_only_whitespace_trivia" or c.target is None or len(c.args) < 2:
                continue
            node_root, _ = _root_chain(g, c.args[1])
            sw = c.target
            if g.blocks[sw]["t"][0] != "switch":
                continue
            f_succ = succ_for_value(g, sw, 0)
            il = innermost_loop(g, c.bb)
            avoid = {il[0]} if il is not None else set()
            reach = g.reachable_blocks(f_succ, avoid=avoid) | {f_succ}
            apart = [x for x in g.calls() if x.bb in reach and x.name() in ("from_syntax_node", "insert_path", "get_children", "descendants")
                     and any(_root_chain(g, a)[0] == node_root for a in x.args)]
            per_node = (not apart, c, [x.where() for x in apart][:2])
            if per_node[0]:
                break
        if whole and whole[0]:
            ctx.ob("R11.7", key, True, "selects / drops / duplicates nodes (%s) only after `%s(has_only_whitespace_trivia)` over the whole list it rewrites, "
                   "before the first write" % (", ".join(selecting[:3]), whole[3].name()), whole[3].where())
        elif per_node and per_node[0]:
            ctx.ob("R11.7", key, True, "re-parses / selects nodes (%s) under a per-node has_only_whitespace_trivia test whose failing edge does not take the node "
                   "apart in that iteration" % ", ".join(selecting[:3]), per_node[1].where())
        else:
            why = []
            if whole:
                why.append("the whitespace-trivia guard ranges over %s%s, not over the whole rewritten list" % (
                    "local `%s`" % (g.local_name(whole[1]) or "_%s" % whole[1]) if whole[1] != P else "the list",
                    " narrowed by %s" % whole[2] if whole[2] else ""))
            if per_node:
                why.append("a node that fails has_only_whitespace_trivia is still taken apart (%s)" % per_node[2])
            if not why:
                why.append("no has_only_whitespace_trivia guard covers the nodes")
            ctx.ob("R11.7", key, False, "the routine selects / drops / duplicates / re-parses child nodes (%s) but %s: a comment attached to an affected "
                   "node is lost or duplicated" % (", ".join(selecting[:3]), "; ".join(why)), g.where())
    ctx.floor("routines rewriting a list of child nodes", n_rw, 2)


# ------------------------------------------------------------------------------------------------
# R11.8 a trailing comma is added on a broken line only where the written one is dropped

def _kind_sets(fn, names, source_call):
    """[(switch block, {kinds with an explicit arm}, {arm target: kinds})] for the switches on the SyntaxKind that
    `source_call`(..) returned (directly, or as the payload of the Option it returned)."""
    out = []
    for bb, t in fn.switches():
        si = fn.switch_info(bb)
        if not si or si[0] != "disc" or not (si[2] or "").endswith("kind::SyntaxKind"):
            continue
        toks = prov(fn, place_local(si[1]), 8)
        if ("c:" + source_call) not in toks:
            continue
        if source_call == "kind" and ("c:parent_kind" in toks):
            continue
        by = {}
        for v, s_ in t[2]:
            if isinstance(v, int) and v < len(names) and s_ != t[3]:
                by.setdefault(s_, set()).add(names[v])
        if by:
            out.append((bb, set().union(*by.values()), by))
    return out


def _len_gt_tests(fn):
    """[(switch block, constant c, true successor)] for tests `children.len() > c`."""
    from .lib import operand_scalar
    out = []
    for bb, t in fn.switches():
        si = fn.switch_info(bb)
        if si and si[0] == "bin" and si[1] in ("Gt", "Lt", "Ge", "Le"):
            a, b = si[2], si[3]
            ta, tb = op_prov(fn, a, 8), op_prov(fn, b, 8)
            ka, kb = operand_scalar(fn, a), operand_scalar(fn, b)
            c = None
            if "c:len" in ta and isinstance(kb, int) and si[1] in ("Gt", "Ge"):
                c = kb + (1 if si[1] == "Ge" else 0) - (1 if si[1] == "Ge" else 0) if si[1] == "Gt" else kb - 1
            elif "c:len" in tb and isinstance(ka, int) and si[1] in ("Lt", "Le"):
                c = ka if si[1] == "Lt" else ka - 1
            if c is not None:
                ts = succ_for_value(fn, bb, 1)
                out.append((bb, c, ts))
    return out


def _comma_symmetry(ctx, F, sst, names):
    if not names:
        ctx.ob("R11.8", "comma-symmetry", False, "SyntaxKind names are not available", "")
        return
    gw = [f for f in F.find("cairo_lang_formatter::node_properties::", name="get_wrapping_break_line_point_properties") if f.body and f.kind == "AssocFn"]
    if len(gw) != 1:
        raise AnchorError("get_wrapping_break_line_point_properties resolves to %d functions" % len(gw))
    gw = gw[0]
    ctx.analysed(gw)
    # where the written trailing comma is dropped: the parent kinds tested in should_skip_terminal, and those of
    # them for which the drop also needs more than c children
    psets = sorted(_kind_sets(sst, names, "parent_kind"), key=lambda x: -len(x[1]))
    skip_kinds = psets[0][1] if psets else set()
    cond_kinds = psets[1][1] if len(psets) > 1 else set()
    skip_c = sorted(set(c for _, c, _ in _len_gt_tests(sst)))
    ctx.ob("R11.8", "skip-table", len(skip_kinds) >= 8, "the written trailing comma is dropped in lists of kind %s; for %s only with more than %s children" % (
        sorted(skip_kinds), sorted(cond_kinds), skip_c), sst.where())
    # where a comma is added when the line is broken
    adders = [c for c in gw.calls() if c.name() == "set_comma_if_broken"]
    ksets = _kind_sets(gw, names, "kind")
    lens = _len_gt_tests(gw)
    n = 0
    seen = {}
    for c in adders:
        kinds, entry = set(), None
        for bb, allk, by in ksets:
            for s_, ks in by.items():
                if gw.dominates(s_, c.bb):
                    kinds |= ks
                    entry = s_
        if not kinds:
            ctx.ob("R11.8", "adder@unknown-kind#%d" % (n + 1), False, "a trailing comma is added on a broken line under no recognisable list kind", c.where())
            n += 1
            continue
        n += 1
        key = "adder:" + "+".join(sorted(kinds))
        seen[key] = seen.get(key, 0) + 1
        if seen[key] > 1:
            key += "#%d" % seen[key]
        not_skipped = kinds - skip_kinds
        msg_extra = ""
        ok = not not_skipped
        if not_skipped:
            msg_extra = "; the written comma of %s is NOT dropped by should_skip_terminal: a broken line gets two commas" % sorted(not_skipped)
        if ok and kinds & cond_kinds:
            # the drop needs more than c children: so must the addition, on every path from the arm to the call
            edges = [ts for _, cc, ts in lens if skip_c and cc == skip_c[0] and gw.dominates(entry, ts)]
            ok = bool(edges) and gw.must_pass(entry, {c.bb}, set(edges)) and not any(e == c.bb and False for e in edges)
            if ok:
                # must_pass(entry -> call) through the true edge: no path reaches the call avoiding those blocks
                reach = gw.reachable_blocks(entry, avoid=set(edges))
                ok = c.bb not in reach or c.bb in edges
            if not ok:
                msg_extra = "; for %s the written comma is dropped only with more than %s children, but the comma is added on a path that does not pass that test: a list of %s children keeps its comma and gets a second one" % (
                    sorted(kinds & cond_kinds), skip_c, skip_c[0] if skip_c else "?")
        ctx.ob("R11.8", key, ok, "a trailing comma is added on a broken line of %s%s" % (sorted(kinds), msg_extra or ": the written one is dropped under the same condition"), c.where())
    ctx.floor("break points that add a trailing comma", n, 8)
