"""C09 - the front end is total (clauses: the panic-capable sites reachable from lexing, parsing
and formatting are an inventoried set; every Parser::take::<T> is preceded on every path by a test
that the next terminal's kind is T::KIND; second look-ahead only after a non-EOF test; the parser's
loops and recursion make progress on every terminal kind)."""
import json
import os
import re
from collections import Counter, defaultdict, deque

from .guards import prov, op_prov, bool_condition, bool_edge_value, switch_edges, succ_for_value, natural_loops
from .lib import (fn_key, CallGraph, op_local, op_const, op_place, place_local, place_fields, rvalue_operands,
                  last_seg, strip_generics, promoted_consts, AnchorError)
from . import c14

EXPLANATION = (
    "Decides the structural clause of C09. (R9.1) The multiset of panic-capable sites (overflow / bounds / division "
    "asserts, explicit panics, unwrap/expect/index/split/...) in functions of cairo-lang-parser and "
    "cairo-lang-formatter reachable from the lexing, parsing and formatting entry points is contained in the "
    "recorded inventory tables/c09_sites.tsv - a new site is a violation (class U rows are an inherited baseline "
    "that is not individually triaged). (R9.2) Typestate of the look-ahead: a forward dataflow over every parser "
    "function tracks the set of kinds the next terminal can have (refined by matches / comparisons on "
    "peek().kind, invalidated by any call that may consume a terminal, propagated into callees from their call "
    "sites); at every Parser::take::<T> the set must be exactly {T::KIND}, which is what the function asserts. "
    "(R9.3) every use of the second look-ahead terminal is preceded by a test that the next terminal is not "
    "end-of-file. (R9.4-R9.6) Progress of the parser: an abstract interpreter runs the prefix of every routine that "
    "executes on an unchanged look-ahead, for each of the terminal kinds and each calling context (generic arguments, "
    "element parsers and should_stop closures handed in), resolving every test of the look-ahead kind exactly; it shows "
    "that a list element parser never returns Ok (or Err(DoNothing) to parse_list) without having consumed a token, that "
    "no loop of the parser can go round without consuming a token (at end of file: without leaving the loop), and that no "
    "routine re-enters itself before a token was consumed. (R9.7, R9.8) The same interpreter over the lexer with the next "
    "character as look-ahead (all ASCII characters, non-ASCII representatives, end of input): every loop of the lexer "
    "takes a character each time round, and match_terminal takes at least one character unless at end of input, so the "
    "terminal stream is finite. Stack depth on nested input, termination of the formatter, and totality of later phases "
    "are not decided.")
ASSUMPTIONS = ["Terminal::KIND of a terminal type named TerminalX is SyntaxKind::TerminalX (read from the facts)",
               "calls that take `&mut Parser` and are not in the non-consuming list may consume a terminal",
               "class U inventory rows are not individually triaged"]
EXHAUSTIVE = True
CRATES = ["cairo_lang_parser", "cairo_lang_formatter"]
TABLE = os.path.join(os.path.dirname(__file__), "..", "tables", "c09_sites.tsv")
EXC = os.path.join(os.path.dirname(__file__), "..", "tables", "c09_take_exceptions.tsv")
PARSER = "cairo_lang_parser::parser::Parser"
NON_CONSUMING = {"peek", "peek_next_next_kind", "next_terminal", "next_next_terminal", "add_diagnostic", "create_and_report_missing",
                 "create_and_report_missing_terminal", "add_optional_diagnostic", "is_peek_identifier_like", "is_peek_identifier_like_string",
                 "is_peek_keyword", "error_diagnostic", "missing_terminal", "diagnostics", "db", "offset", "report_missing"}
TOP = None  # unknown


def kind_of_terminal(F, ty):
    """`...ast::TerminalComma<'_>` -> 'TerminalComma' (the SyntaxKind variant of its KIND)."""
    return last_seg(strip_generics(ty))


class KindFlow:
    """Forward dataflow of the possible kinds of the next terminal inside one parser function."""

    def __init__(self, F, fn, names, summaries):
        self.F, self.fn, self.names, self.summaries = F, fn, names, summaries

    def const_kind(self, op):
        """SyntaxKind variant named by an operand (constant aggregate, promoted constant or T::KIND)."""
        fn = self.fn
        k = op_const(op)
        l = op_local(op)
        if k is None and l is not None:
            l0 = fn.resolve_copy(l)
            d = fn.single_def(l0)
            if d and d[0] == "stmt":
                rv = d[3]
                if rv[0] == "agg" and rv[1] == "adt" and rv[2].endswith("kind::SyntaxKind"):
                    return rv[4]
                if rv[0] == "use":
                    return self.const_kind(rv[1]) if op_local(rv[1]) != l0 else None
            return None
        if k is not None and k[0] == "promoted":
            pb = fn.const_of_promoted(op[2])
            if pb:
                for bl in pb["blocks"]:
                    for st in bl["s"]:
                        if st[0] == "a" and st[2][0] == "agg" and st[2][1] == "adt" and st[2][2].endswith("kind::SyntaxKind"):
                            return st[2][4]
                        if st[0] == "a":
                            for o in rvalue_operands(st[2]):
                                if o[0] == "k" and o[1] == "opaque" and "::KIND" in str(o[2]):
                                    m = re.match(r"^<(\w+) as ", str(o[2]))
                                    return "KIND:" + (m.group(1) if m else "?")
        if k is not None and k[0] == "opaque" and "::KIND" in str(op[2]):
            m = re.match(r"^<(\w+) as ", str(op[2]))
            return "KIND:" + (m.group(1) if m else "?")
        return None

    def is_peek_kind(self, op_or_local):
        l = op_or_local if isinstance(op_or_local, int) else op_local(op_or_local)
        if l is None:
            return False
        toks = prov(self.fn, l, 8)
        return ("c:peek" in toks or "c:next_terminal" in toks) and "f:kind" in toks

    def is_peek_place(self, place):
        toks = prov(self.fn, place_local(place), 8)
        has_kind = "kind" in place_fields(place) or "f:kind" in toks
        return has_kind and ("c:peek" in toks or "c:next_terminal" in toks)

    def edge_facts(self, bb):
        """{succ: kinds-set} for switches that test peek().kind; kinds-set ('in', {..}) or ('notin', {..})."""
        fn = self.fn
        info, flip = bool_condition(fn, bb)
        out = {}
        if not info:
            return out
        if info[0] == "disc" and info[2].endswith("kind::SyntaxKind") and self.is_peek_place(info[1]):
            explicit = set()
            by = defaultdict(set)
            for v, s in switch_edges(fn, bb):
                if v != "otherwise":
                    by[s].add(self.names[v])
                    explicit.add(self.names[v])
            for s, ks in by.items():
                out[s] = ("in", ks)
            t = fn.blocks[bb]["t"]
            if t[3] not in by:
                out[t[3]] = ("notin", explicit)
            return out
        call = None
        if info[0] == "call" and info[1].name() in ("eq", "ne") and ("SyntaxKind" in info[1].path or any("SyntaxKind" in g_ for g_ in info[1].gargs)):
            call, neg = info[1], info[1].name() == "ne"
            via_req = False
        elif info[0] == "disc" and info[2] in ("core::ops::control_flow::ControlFlow", "core::option::Option"):
            # require(kind == K)? : Continue edge => equality holds
            src = self._require_eq(place_local(info[1]))
            if src is not None:
                call, neg = src, src.name() == "ne"
                good = 0 if info[2].endswith("ControlFlow") else 1
                k = self._eq_kind(call)
                if k:
                    s = succ_for_value(fn, bb, good)
                    out[s] = ("notin", {k}) if neg else ("in", {k})
                return out
        if call is not None:
            k = self._eq_kind(call)
            if k:
                for s in fn.succ(bb):
                    v = bool_edge_value(fn, bb, s)
                    if v is None:
                        continue
                    holds = (v ^ flip) ^ neg
                    out[s] = ("in", {k}) if holds else ("notin", {k})
        return out

    def _eq_kind(self, call):
        a, b = call.args[0], call.args[1]
        ka, kb = self.const_kind(a), self.const_kind(b)
        if ka and self.is_peek_kind(b):
            return ka
        if kb and self.is_peek_kind(a):
            return kb
        return None

    def _require_eq(self, l, depth=6):
        fn = self.fn
        seen = set()
        stack = [(l, 0)]
        while stack:
            x, d = stack.pop()
            if x in seen or d > depth:
                continue
            seen.add(x)
            for df in fn.defs().get(x, []):
                if df[0] == "call":
                    c = df[2]
                    if c.name() in ("eq", "ne") and ("SyntaxKind" in c.path or any("SyntaxKind" in g_ for g_ in c.gargs)):
                        return c
                    if c.name() in ("require", "branch", "ok_or", "then_some", "then"):
                        for a in c.args:
                            if op_local(a) is not None:
                                stack.append((op_local(a), d + 1))
                elif df[0] == "stmt":
                    from .lib import rvalue_places
                    for p in rvalue_places(df[3]):
                        stack.append((place_local(p), d + 1))
        return None

    def transfer_call(self, state, c):
        fn = self.fn
        nm = c.name()
        takes_parser = any(op_local(a) is not None and fn.local_ty(op_local(a)).startswith("&mut " + PARSER) for a in c.args)
        if not takes_parser:
            return state
        if nm in NON_CONSUMING:
            return state
        if nm == "unglue" or c.path in self.summaries:
            gargs = c.gargs if nm == "unglue" else self.summaries[c.path]
            ts = [kind_of_terminal(self.F, g) for g in gargs if "Terminal" in g]
            if len(ts) >= 2 and state is not TOP:
                o, f1 = ts[0], ts[1]
                if o in state:
                    return (state - {o}) | {f1}
                return state
            return state if state is not TOP else TOP
        return TOP

    def run(self, entry_state):
        """Returns {call block of take / callee: state before the call}."""
        fn = self.fn
        n = len(fn.blocks)
        inn = {0: entry_state}
        work = deque([0])
        at_call = {}
        iters = 0
        while work and iters < 20000:
            iters += 1
            bb = work.popleft()
            state = inn.get(bb, "unset")
            if state == "unset":
                continue
            t = fn.blocks[bb]["t"]
            outs = {}
            if t[0] == "call":
                c = [x for x in fn.calls() if x.bb == bb][0]
                at_call[bb] = state
                ns = self.transfer_call(state, c)
                if t[4] is not None:
                    outs[t[4]] = ns
            elif t[0] == "switch":
                facts = self.edge_facts(bb)
                for s in fn.succ(bb):
                    f = facts.get(s)
                    ns = state
                    if f is not None:
                        if f[0] == "in":
                            ns = set(f[1]) if state is TOP else (state & f[1])
                        elif state is not TOP:
                            ns = state - f[1]
                    outs[s] = ns
            else:
                for s in fn.succ(bb):
                    outs[s] = state
            for s, ns in outs.items():
                old = inn.get(s, "unset")
                if old == "unset":
                    new = ns
                elif old is TOP or ns is TOP:
                    new = TOP
                else:
                    new = old | ns
                if old == "unset" or new != old:
                    inn[s] = new
                    work.append(s)
        return at_call


def run(ctx):
    F = ctx.load(CRATES, adts_only=["cairo_lang_syntax"])
    SK = F.adts["cairo_lang_syntax::node::kind::SyntaxKind"]
    names = [v["name"] for v in SK["variants"]]

    # ---------------- R9.1 inventory
    cg = CallGraph(F)
    roots = []
    for frag, nm in (("cairo_lang_parser::parser::Parser", "parse_file"), ("cairo_lang_parser::parser::Parser", "parse_file_expr"),
                     ("cairo_lang_parser::parser::Parser", "parse_token_stream"), ("cairo_lang_parser::parser::Parser", "parse_token_stream_expr"),
                     ("cairo_lang_parser::parser::Parser", "parse_file_statement_list"),
                     ("cairo_lang_formatter::", "get_formatted_file"), ("cairo_lang_formatter::cairo_formatter::CairoFormatter", "format_to_string"),
                     ("cairo_lang_formatter::cairo_formatter::CairoFormatter", "format_in_place"),
                     ("cairo_lang_parser::lexer::Lexer", "match_terminal")):
        r = [f for f in F.find(frag, name=nm) if f.kind in ("Fn", "AssocFn")]
        roots += [f.path for f in r]
    # tracked query bodies of the parser crate (file_syntax_data etc.)
    roots += [p for p in F.fns if p.endswith("execute::inner_") and p.startswith("<cairo_lang_parser::")]
    ctx.floor("front-end entry points", len(roots), 6)
    reach = cg.reachable(roots)
    ctx.floor("functions reachable from the front-end entry points", len(reach), 200)
    for p in reach:
        ctx.analysed(p)
    wrappers = set()
    inv, lines = c14.inventory(F, reach, wrappers)
    if os.environ.get("VERIF_C09_WRITE_BASELINE"):
        old = c14.load_table(TABLE)
        with open(TABLE, "w") as fh:
            fh.write("# C09 R9.1 inventory of panic-capable sites reachable from the lexing / parsing / formatting entry points.\n"
                     "# function <TAB> kind <TAB> count <TAB> class <TAB> reason   (classes: I impossible; G guarded by a checked rule; U inherited baseline, not individually triaged; F finding)\n")
            for (fnp, kind), n in sorted(inv.items()):
                o = old.get((fnp, kind))
                cls, reason = (o[1], o[2]) if o else ("U", "")
                if kind == "panic:assert_eq" and fnp.endswith("Parser::take"):
                    cls, reason = "G", "the asserted kind equality is established at every call site (R9.2)"
                fh.write("%s\t%s\t%d\t%s\t%s\n" % (fnp, kind, n, cls, reason))
    table = c14.load_table(TABLE)
    classes = Counter()
    budget = c14.moved_sites(inv, table)
    excess = Counter()
    for key, n in inv.items():
        have = table.get(key)
        if have is None or n > have[0]:
            excess[(c14.crate_of(key[0]), c14.kind_family(key[1]))] += n - (have[0] if have else 0)
    for key, n in sorted(inv.items()):
        have = table.get(key)
        where = "%s:%s" % lines[key][0]
        ck = (c14.crate_of(key[0]), c14.kind_family(key[1]))
        if (have is None or n > have[0]) and excess[ck] <= budget[ck]:
            classes["moved"] += n
            ctx.ob("R9.1", "%s|%s" % key, True,
                   "%d site(s) of kind %s appear here while %d left other functions of %s: moved, the multiset did not grow" % (
                       n - (have[0] if have else 0), key[1], budget[ck], ck[0]), where)
            continue
        if have is None or n > have[0]:
            ctx.ob("R9.1", "%s|%s" % key, False,
                   "new panic-capable site (%s) x%d reachable from lexing/parsing/formatting" % (key[1], n) if have is None else
                   "panic-capable sites of kind %s grew from %d to %d" % (key[1], have[0], n), where)
        else:
            classes[have[1]] += n
    ctx.ob("R9.1", "inventory", True, "sites by class: %s" % dict(classes), "")
    ctx.floor("panic-capable sites inventoried", sum(inv.values()), 50)

    # ---------------- R9.2 take precondition (typestate of the look-ahead)
    exc = {}
    if os.path.exists(EXC):
        for line in open(EXC):
            if line.strip() and not line.startswith("#"):
                p = line.rstrip("\n").split("\t")
                exc[p[0]] = p[1] if len(p) > 1 else ""
    used = set()
    pfns = {p: f for p, f in F.fns.items() if f.body and f.crate == "cairo_lang_parser" and p.startswith(PARSER)}
    # summaries of unglue wrappers
    summaries = {}
    for p, f in pfns.items():
        cs = [c for c in f.calls() if any(op_local(a) is not None and f.local_ty(op_local(a)).startswith("&mut " + PARSER) for a in c.args)]
        if len(cs) == 1 and cs[0].name() == "unglue":
            summaries[p] = cs[0].gargs
    entry = {p: TOP for p in pfns}
    results = {}
    for rnd in range(4):
        call_states = defaultdict(list)
        contexts = defaultdict(list)
        results = {}
        for p, f in pfns.items():
            kf = KindFlow(F, f, names, summaries)
            at = kf.run(entry[p])
            results[p] = (kf, at)
            for c in f.calls():
                if c.bb in at and c.path in pfns:
                    call_states[c.path].append(at[c.bb])
                    gen = pfns[c.path].d.get("generics") or []
                    if gen and len(gen) == len(c.gargs):
                        contexts[c.path].append((at[c.bb], dict(zip(gen, c.gargs)), f, c))
        new_entry = {}
        for p in pfns:
            sts = call_states.get(p)
            if not sts or any(s is TOP for s in sts):
                new_entry[p] = TOP
            else:
                u = set()
                for s in sts:
                    u |= s
                new_entry[p] = u
        if new_entry == entry:
            break
        entry = new_entry
    n_take = 0
    n_ok = 0
    ords = Counter()
    for p, (kf, at) in sorted(results.items()):
        f = kf.fn
        for c in f.calls():
            if c.name() != "take" or not c.path.startswith(PARSER):
                continue
            n_take += 1
            T = [g for g in c.gargs if "Terminal" in g or g[0].isupper()]
            tname = kind_of_terminal(F, T[0]) if T else "?"
            generic = not tname.startswith("Terminal") or tname == "Terminal"
            want = {"KIND:" + tname} if generic else {tname}
            st = at.get(c.bb, TOP)
            ords[(p, tname)] += 1
            key = "%s|take::<%s>#%d" % (fn_key(p), tname, ords[(p, tname)])
            ok = st is not TOP and len(st) >= 1 and st <= want
            msg = "next terminal kind before take::<%s> is %s" % (tname, "unknown (no dominating test)" if st is TOP else sorted(st))
            if not ok and generic and tname in (f.d.get("generics") or []) and contexts.get(p):
                # a take on a type parameter: check every instantiating call site separately
                bad = []
                for (s_in, subst, cf, cc) in contexts[p]:
                    conc = subst.get(tname, "")
                    ck = kind_of_terminal(F, conc)
                    if not ck.startswith("Terminal") or ck == "Terminal":
                        bad.append("%s instantiates %s with %s" % (last_seg(cf.path), tname, conc[:30]))
                        continue
                    at2 = KindFlow(F, f, names, summaries).run(s_in)
                    st2 = at2.get(c.bb, TOP)
                    if st2 is not TOP:
                        st2 = set(ck if x == "KIND:" + tname else x for x in st2)
                    if st2 is TOP or not (len(st2) >= 1 and st2 <= {ck}):
                        bad.append("%s<%s=%s>: %s" % (last_seg(cf.path), tname, ck, "unknown" if st2 is TOP else sorted(st2)))
                ok = not bad
                msg = "take::<%s> checked per instantiation (%d call sites): %s" % (tname, len(contexts[p]), "all establish the kind" if ok else "; ".join(bad[:3]))
            if not ok and key in exc:
                used.add(key)
                ok = True
                msg += " [exception: %s]" % exc[key]
            if ok:
                n_ok += 1
            ctx.ob("R9.2", key, ok, msg, c.where())
    ctx.floor("Parser::take call sites", n_take, 120)
    for k in sorted(set(exc) - used):
        ctx.ob("R9.2", "stale:" + k, False, "exception row no longer matches", EXC)

    # ---------------- R9.3 second look-ahead only when not at EOF
    for p, (kf, at) in sorted(results.items()):
        f = kf.fn
        for c in f.calls():
            if c.name() in ("peek_next_next_kind", "next_next_terminal") and last_seg(p) not in ("peek_next_next_kind",):
                st = at.get(c.bb, TOP)
                ok = st is not TOP and "TerminalEndOfFile" not in st
                ctx.ob("R9.3", "%s|%s" % (fn_key(p), c.name()), ok,
                       "second look-ahead used when the next terminal is %s" % ("possibly end-of-file (unknown)" if st is TOP else sorted(st)[:4]), c.where())
    _progress(ctx, names)
    _controls(ctx, F, names, summaries, pfns)


class PostState:
    """What is known where the next terminal is arbitrary again - right after a call that may consume: the kinds the callee
    can leave as next terminal (it returned without consuming from a point of its own where the kind was k), and the
    abstract values it can return (every path of the callee, next terminal unknown, calls that receive the parser opaque)."""

    def __init__(self, A, ai, ai_top, pf, LK, may_consume):
        self.A, self.ai, self.ai_top, self.pf, self.LK, self.may_consume = A, ai, ai_top, pf, LK, may_consume
        self._pk = {}
        self._rv = {}

    def callee_ctx(self, f, cx, c):
        A = self.A
        h = self.pf[c.path]
        gen = h.d.get("generics") or []
        gargs = [A.subst_apply(cx[0], x) for x in c.gargs]
        sub = tuple(sorted(zip(gen, gargs))) if gen and len(gen) == len(gargs) else ()
        args = []
        for a in c.args[:h.argc]:
            av = A.static_av(f, a, cx, consts=True)
            args.append(av if A._ctx_relevant(av) else None)
        return (sub, tuple(args))

    def points(self, f):
        pts = {}
        for c in f.calls():
            if c.target is not None and self.may_consume(f, c):
                pts[c.target] = c
        loops = natural_loops(f)
        for h in (loops.keys() if isinstance(loops, dict) else [h for h, _ in loops]):
            pts.setdefault(h, None)
        return pts

    def post_kinds(self, g, cx):
        key = (g, cx)
        if key in self._pk:
            return self._pk[key] if self._pk[key] is not None else set(self.LK)
        self._pk[key] = None          # in progress: a recursive question gets "any kind"
        f = self.pf[g]
        res = set()
        for k in self.LK:
            if any(rav != "!" and not cons for rav, cons in self.ai.outcomes(g, k, cx[0], cx[1])):
                res.add(k)
        for bb, c in self.points(f).items():
            ks = self.kinds_after(f, cx, c)
            for k in ks:
                if k in res:
                    continue
                for env in self.envs_after(f, cx, c):
                    if any(rav != "!" and not cons for rav, cons in self.ai.from_block(f, bb, k, cx[0], cx[1], extra_env=env)):
                        res.add(k)
                        break
        self._pk[key] = res
        return res

    def kinds_after(self, f, cx, c):
        if c is None or c.path not in self.pf or c.callee.get("r") == "ptr":
            return list(self.LK)
        return sorted(self.post_kinds(c.path, self.callee_ctx(f, cx, c)))

    def ret_variants(self, g, cx):
        key = (g, cx)
        if key not in self._rv:
            before = len(self.ai_top.limits)
            outs = self.ai_top.outcomes(g, self.A.TOPK, cx[0], cx[1])
            ravs = {rav for rav, _ in outs if rav != "!"}
            if len(self.ai_top.limits) > before or None in ravs or len(ravs) > 8 or not ravs:
                self._rv[key] = None
            else:
                self._rv[key] = sorted(ravs, key=str)
        return self._rv[key]

    def envs_after(self, f, cx, c):
        if c is None or c.path not in self.pf or c.callee.get("r") == "ptr" or place_fields(c.dest) or not isinstance(c.dest, int) and c.dest[1]:
            return [{}]
        rv = self.ret_variants(c.path, self.callee_ctx(f, cx, c))
        if rv is None:
            return [{}]
        return [{place_local(c.dest): av} for av in rv]

    def panics_from(self, f, cx, bb, c, k):
        """Can a panic be reached from restart point bb of f (after call c, or a loop head) when the next terminal is k?"""
        if ("!", False) not in self.ai.from_block(f, bb, k, cx[0], cx[1]):
            return False
        if c is None or c.path not in self.pf or c.callee.get("r") == "ptr":
            return True
        if k not in self.post_kinds(c.path, self.callee_ctx(f, cx, c)):
            return False
        return any(("!", False) in self.ai.from_block(f, bb, k, cx[0], cx[1], extra_env=env) for env in self.envs_after(f, cx, c))


def _progress(ctx, names):
    """R9.4-R9.6: the recovery loops of the parser make progress (abstract interpretation of the prefix of every
    routine that runs on an unchanged look-ahead, for every terminal kind and calling context)."""
    from . import parser_ai as A
    from .guards import natural_loops
    F = ctx.load(["cairo_lang_parser", "cairo_lang_syntax"])
    TK = [n for n in names if n.startswith("Terminal")]
    ctx.floor("terminal kinds", len(TK), 60)
    pf = {p: f for p, f in F.fns.items() if f.body and f.crate == "cairo_lang_parser"}
    # the routine that moves the look-ahead window is whichever pops `current_terminals` (today `advance`)
    movers = {last_seg(f.root) for f in pf.values() for c in f.calls()
              if c.name() == "pop_front" and c.args and "f:current_terminals" in op_prov(f, c.args[0], 4)}
    A.BASE_CONSUMERS = tuple(sorted(set(A.BASE_CONSUMERS) | movers))
    ai = A.ParserAI(F, names)

    # R9.4 a list element parser never reports success (or "already skipped") without having consumed a token
    elems = A.element_parsers(F, pf)
    ctx.floor("list element parsers handed to the list routines", len(elems), 12)
    for e in sorted(elems):
        users = sorted(set(u or "?" for _, u in elems[e]))
        plain_list = any(u in ("parse_list", "parse_attributed_list") for u in users)
        ctx.analysed(F.fns[e])
        bad = []
        for k in TK:
            for rav, consumed in ai.outcomes(e, k):
                if consumed:
                    continue
                trail = " > ".join(ai.witness.get(((e, k, (), ()), (rav, consumed)), ())[:8])
                if rav == "!":
                    bad.append("%s: panics before consuming a token (%s)" % (k, trail))
                elif rav is None or rav[0] != "v":
                    bad.append("%s: result not determined (%s)" % (k, trail))
                elif rav[1] == 0:
                    bad.append("%s: returns Ok without consuming a token (%s)" % (k, trail))
                elif rav[1] == 1 and (len(rav) < 3 or rav[2] is None):
                    bad.append("%s: returns an undetermined failure without consuming (%s)" % (k, trail))
                elif rav[1] == 1 and rav[2][1] == 1 and plain_list:
                    bad.append("%s: returns Err(DoNothing) without consuming a token; parse_list then retries on the same token (%s)" % (k, trail))
        ctx.ob("R9.4", "element:%s" % fn_key(e), not bad,
               "for each of the %d terminal kinds the element parser (used by %s) consumes a token whenever it returns Ok%s" % (
                   len(TK), "/".join(users), " or Err(DoNothing)" if plain_list else "") if not bad else
               "the list loop that calls this element parser does not advance: " + "; ".join(bad[:4]), elems[e][0][0])

    # R9.5 no loop of the parser can go round without consuming a token (per calling context, per kind)
    contexts, rounds = A.compute_contexts(F, pf)
    n_loops = n_runs = 0
    for p, f in sorted(pf.items()):
        loops = natural_loops(f)
        items = loops.items() if isinstance(loops, dict) else loops
        ordinal = 0
        for h, body in sorted(items):
            if not any(A.takes_parser(f, c) or c.callee.get("r") == "ptr" for c in f.calls() if c.bb in body):
                continue
            ordinal += 1
            n_loops += 1
            ctx.analysed(f)
            if not contexts[p]:
                ctx.ob("R9.5", "loop:%s#%d|no-context" % (fn_key(p), ordinal), False,
                       "the routine has a token loop but no calling context could be established", f.where())
                continue
            for cx in sorted(contexts[p], key=str):
                before = set(ai.cycles)
                for k in TK:
                    ai.from_block(f, h, k, cx[0], cx[1])
                    n_runs += 1
                new = [(key, ai.cycles[key]) for key in ai.cycles if key not in before]
                ct = A.ctx_text(cx)
                ctx.ob("R9.5", "loop:%s#%d|%s" % (fn_key(p), ordinal, ct), not new,
                       "every way round the loop consumes a token (or, at end of file, leaves the loop) for each of the %d terminal kinds" % len(TK) if not new else
                       "the loop can go round without consuming a token: " + "; ".join(
                           "next terminal %s, in %s line %s via %s" % (key[1], last_seg(key[0]), v[0], " > ".join(v[2][-6:])) for key, v in new[:3]),
                       f.where(A._line(f, h)))
    ctx.floor("token loops of the parser", n_loops, 8)

    # R9.6 no routine re-enters itself on an unchanged look-ahead (unbounded recursion)
    ctx.ob("R9.6", "recursion-without-consumption", not ai.recursions,
           "no routine is re-entered with the same next terminal and context before a token was consumed (%d routine/kind pairs interpreted)" % len(ai.memo)
           if not ai.recursions else "re-entered without consuming: " + "; ".join("%s on %s: %s" % (last_seg(k[0]), k[1], v) for k, v in list(ai.recursions.items())[:4]), "")
    ctx.ob("R9.5", "interpreter:state-limit", not ai.limits, "no exploration hit the state limit" if not ai.limits else
           "state limit hit in %s" % sorted(last_seg(k[0]) for k in ai.limits)[:5], "")
    for (path, why), where in sorted(ai.unknown_calls.items()):
        ctx.ob("R9.5", "interpreter:unknown-call:%s" % fn_key(path), False,
               "a call the interpreter cannot look into (%s) is reached on an unchanged look-ahead; it is assumed not to consume" % why, where)
    ctx.notes.append("progress interpreter: %d (routine, kind, context) summaries, %d loop explorations, %d states; contexts fixpoint in %d rounds" % (
        len(ai.memo), n_runs, ai.n_explored, rounds))
    ctx._c09_ai = (ai, F, pf, contexts)

    # R9.9 a routine that panics for some next-terminal kinds (an `unreachable!()` arm of a dispatch on the kind, an
    # unwrap of a None that the kind decides) is only entered with the other kinds
    tkf = F.find1("cairo_lang_parser::lexer::", name="token_kind_to_terminal_syntax_kind")
    LK = sorted({st[2][4] for _, _, st in tkf.stmts() if st[0] == "a" and st[2][0] == "agg" and st[2][1] == "adt"
                 and st[2][2].endswith("kind::SyntaxKind")})
    ctx.floor("terminal kinds the lexer can produce", len(LK), 60)
    ALL_KINDS = list(LK)

    def guarded_panics(ai, ai_top, rule, kinds, cand_extra, what):
        """Routines that panic for some next-terminal kinds are reached only with the other kinds."""
        LK = kinds
        ppf = {p: f for p, f in pf.items() if p.startswith(PARSER)}
        callers = defaultdict(set)
        for p, f in ppf.items():
            for c in f.calls():
                if c.path in ppf:
                    callers[c.path].add(p)
        cand = [p for p, f in ppf.items() if any((c.target is None and A.is_panic_call(c)) or c.name() in ("unwrap", "expect") for c in f.calls())] + list(cand_extra(ppf))
        ctx.floor("%s: parser routines with an explicit panic, unwrap or expect%s" % (rule, what and " or a window pop"), len(cand), 8)
        P = {}
        work = deque(sorted(cand))
        while work:
            g = work.popleft()
            if g in P or last_seg(g) == "take":
                continue
            ks = set()
            for cx in contexts[g]:
                for k in LK:
                    if ("!", False) in ai.outcomes(g, k, cx[0], cx[1]):
                        ks.add(k)
            P[g] = ks
            if ks:
                for q in callers[g]:
                    if q not in P:
                        work.append(q)
        panicking = {g: ks for g, ks in P.items() if ks}
        consumes = {}

        def may_consume(f, c):
            """Can the call move the token window?  (`&mut Parser` receiver and, for routines of the parser, a summary
            that consumes for some kind and context)"""
            if not any(op_local(a) is not None and (f.local_ty(op_local(a)) or "").startswith("&mut " + PARSER) for a in c.args):
                return False          # cannot move the window without the parser (a `should_stop(kind)` pointer, a pure helper)
            if c.callee.get("r") == "ptr":
                return True
            g = c.path
            if g not in pf:
                return True
            if last_seg(g) == "unglue":
                # replaces the next terminal by its two halves: afterwards the kind is known (the interpreter's model of
                # the call), not arbitrary
                return False
            if g not in consumes:
                # (for any kind the lexer produces, not only the kinds this pass looks at)
                consumes[g] = any(cons for cx in contexts[g] for k in ALL_KINDS for _, cons in ai.outcomes(g, k, cx[0], cx[1]))
            return consumes[g]
        post = PostState(A, ai, ai_top, pf, LK, may_consume)
        roots = [q for q in ppf if last_seg(q) in ("parse_syntax_file", "parse_file_expr", "parse_token_stream", "parse_token_stream_expr", "parse_file_statement_list",
                                                    "parse_file")]
        for q in sorted(roots):
            ks = P.get(q)
            if ks is None:
                ks = set(k for cx in contexts[q] for k in LK if ("!", False) in ai.outcomes(q, k, cx[0], cx[1]))
            ctx.ob(rule, "entry:%s" % fn_key(q), not ks, ("the entry point does not panic on its first terminal, whatever its kind" if not what else
                   "the entry point does not pop the token window (or panic) when the file is empty") if not ks else
                   "the entry point panics%s when the first terminal is %s" % (what and " / pops the window", sorted(ks)[:5]), ppf[q].where())
        n_sites = 0
        for g, ks in sorted(panicking.items()):
            ctx.analysed(ppf[g])
            for q in sorted(callers[g]):
                f = ppf[q]
                # the call sites in q are safe if q entered with any kind never reaches the panic on its unchanged prefix
                # (then P[q] is empty) and if no point after a consumption, and no loop head, reaches it either
                starts = post.points(f)
                bad = {}
                for cx in contexts[q]:
                    for k in LK:
                        if ("!", False) in ai.outcomes(q, k, cx[0], cx[1]):
                            continue          # q itself panics on k from its entry: its own callers are checked in turn
                        for bb in sorted(starts):
                            if post.panics_from(f, cx, bb, starts[bb], k):
                                bad.setdefault(k, A._line(f, bb))
                n_sites += 1
                ctx.ob(rule, "guarded:%s<-%s" % (fn_key(g).split("::")[-1], fn_key(q)), not bad,
                       "%s %s when entered with %d of the %d kinds (e.g. %s); in %s it is reached only with the other kinds, from the entry, after every consuming call and from every loop head" % (
                           last_seg(g), what or "panics", len(ks), len(LK), sorted(ks)[:2], last_seg(q)) if not bad else
                       "%s %s on %s and is reached with that kind in %s (from line %s)" % (last_seg(g), what or "panics", sorted(bad)[:4], last_seg(q), sorted(bad.values())[0]), f.where())
        # ... and a routine with a panicking construct of its own does not reach it from a point where the next terminal is
        # arbitrary again (after a call that may consume, at a loop head)
        n_int = 0
        for g in sorted(set(cand)):
            if last_seg(g) in A.BASE_CONSUMERS or last_seg(g) == "take" or g not in ppf:
                continue
            f = ppf[g]
            starts = post.points(f)
            if not starts:
                continue
            bad = {}
            for cx in contexts[g]:
                for k in LK:
                    for bb in sorted(starts):
                        if post.panics_from(f, cx, bb, starts[bb], k):
                            bad.setdefault(k, A._line(f, bb))
            n_int += 1
            ctx.ob(rule, "after-consumption:%s" % fn_key(g), not bad,
                   "no point of %s where the next terminal is arbitrary again (after a consuming call, at a loop head) reaches a panic%s, for any of the %d kinds" % (
                       last_seg(g), what and " or a window pop", len(LK)) if not bad else
                   "%s %s on %s from line %s, where the next terminal is arbitrary" % (last_seg(g), what or "panics", sorted(bad)[:4], sorted(bad.values())[0]), f.where())
        ctx.floor("%s: call relations into routines that panic for some kinds" % rule, n_sites, 2)
        ctx.notes.append("%s: routines that panic%s for some kinds on an unchanged look-ahead: %s" % (rule, what and " / pop the window", {last_seg(g): len(ks) for g, ks in panicking.items()}))
        return panicking

    ai_top = A.ParserAI(F, names, topk=True)
    guarded_panics(ai, ai_top, "R9.9", LK, lambda ppf: [], "")

    # R9.10 the token window is never popped at end of file.  `advance` pops the front of `current_terminals`; the end-of-
    # file terminal is the last one the lexer produces, so popping it would leave the window empty and the next `peek()`
    # (an index) or `advance` (an unwrap) would panic.  Same interpreter, with a pop at end of file counted as a panic,
    # for the one kind TerminalEndOfFile; `take::<T>` pops as well (whatever T is).
    ai_eof = A.ParserAI(F, names, eof_pop_panics=True)
    poppers = lambda ppf: [p for p, f in ppf.items() if last_seg(p) not in A.BASE_CONSUMERS and last_seg(p) != "take"
                           and any(c.path.startswith(PARSER + "::") and (c.name() in A.BASE_CONSUMERS or c.name() == "take") for c in f.calls())]
    ppf_all = {p: f for p, f in pf.items() if p.startswith(PARSER)}
    pop_routines = poppers(ppf_all)
    ctx.floor("routines that pop the token window (call take, take_raw or advance)", len(pop_routines), 60)
    at_eof = guarded_panics(ai_eof, ai_top, "R9.10", [A.EOF_KIND], poppers, "pops the token window at end of file (or panics)")
    ctx.ob("R9.10", "interpreter:clean", not (ai_eof.limits or ai_eof.unknown_calls),
           "no state limit or uninterpretable call in the end-of-file exploration (%d summaries)" % len(ai_eof.memo) if not (ai_eof.limits or ai_eof.unknown_calls)
           else "limits %s, unknown calls %s" % (sorted(last_seg(k[0]) for k in ai_eof.limits)[:4], sorted(last_seg(k[0]) for k in ai_eof.unknown_calls)[:4]), "")
    _window_discipline(ctx, F)

    # R9.7 / R9.8 the same interpreter over the lexer: the look-ahead is the next character
    lai = A.LexerAI(F, names)
    lf = {p: f for p, f in F.fns.items() if f.body and f.crate == "cairo_lang_parser" and p.startswith(("cairo_lang_parser::lexer::", "<cairo_lang_parser::lexer::"))}
    alphabet = A.lexer_alphabet()
    lctx, _ = A.compute_contexts(F, lf)
    n_lloops = 0
    for p, f in sorted(lf.items()):
        loops = natural_loops(f)
        ordinal = 0
        for h, body in sorted(loops.items() if isinstance(loops, dict) else loops):
            ordinal += 1
            n_lloops += 1
            ctx.analysed(f)
            if not lctx[p]:
                ctx.ob("R9.7", "lexer-loop:%s#%d|no-context" % (fn_key(p), ordinal), False, "no calling context could be established", f.where())
                continue
            for cx in sorted(lctx[p], key=str):
                before = set(lai.cycles)
                for ch in alphabet:
                    lai.from_block(f, h, ch, cx[0], cx[1])
                new = [(key, lai.cycles[key]) for key in lai.cycles if key not in before]
                ctx.ob("R9.7", "lexer-loop:%s#%d|%s" % (fn_key(p), ordinal, A.ctx_text(cx)), not new,
                       "every way round the loop takes a character, for each of %d next characters (all ASCII, 3 non-ASCII representatives) and at end of input the loop is left" % (len(alphabet) - 1)
                       if not new else "the loop can go round without taking a character: " + "; ".join(
                           "next character %r via %s" % (chr(key[1]) if isinstance(key[1], int) else key[1], " > ".join(v[2][-5:])) for key, v in new[:3]),
                       f.where(A._line(f, h)))
    ctx.floor("loops of the lexer", n_lloops, 2)
    mt = F.find1("cairo_lang_parser::lexer::Lexer", name="match_terminal")
    ctx.analysed(mt)
    bad = []
    for ch in alphabet:
        if ch == A.EOF_CHAR:
            continue
        for rav, consumed in lai.outcomes(mt.path, ch):
            if not consumed:
                bad.append("%r (%s)" % (chr(ch), " > ".join(lai.witness.get(((mt.path, ch, (), ()), (rav, consumed)), ())[-5:])))
    ctx.ob("R9.8", "lexer:match_terminal-advances", not bad,
           "for every next character other than end of input, match_terminal takes at least one character, so the terminal stream reaches end of file"
           if not bad else "match_terminal can return a terminal without taking a character: " + "; ".join(bad[:4]), mt.where())
    ctx.ob("R9.7", "lexer-interpreter:complete", not lai.limits and not lai.unknown_calls and not lai.recursions,
           "no state limit, unknown lexer call or re-entry (%d summaries)" % len(lai.memo) if not (lai.limits or lai.unknown_calls or lai.recursions)
           else "limits %s unknown %s recursions %s" % (len(lai.limits), list(lai.unknown_calls)[:3], list(lai.recursions)[:3]), "")


def _window_discipline(ctx, F):
    """R9.10 (structure): the look-ahead window `Parser::current_terminals` always holds the end-of-file terminal once the
    lexer produced it, because the only removal is the `pop_front` of `advance` (never at end of file: the interpreter
    rule above), the window is filled when the parser is created, and `advance` refills before it pops."""
    from .guards import op_prov
    REMOVERS = {"pop_front", "pop_back", "clear", "truncate", "drain", "remove", "swap_remove_back", "swap_remove_front",
                "split_off", "retain", "retain_mut", "resize", "resize_with", "take", "replace", "swap", "append"}
    uses = defaultdict(list)
    for p, f in F.fns.items():
        if not f.body or f.crate != "cairo_lang_parser":
            continue
        for c in f.calls():
            if not c.args:
                continue
            l = op_local(c.args[0])
            if l is None or not (f.local_ty(l) or "").startswith("&"):
                continue
            if "f:current_terminals" in op_prov(f, c.args[0], 4):
                uses[c.name()].append((f, c))
    removers = [(nm, f, c) for nm, xs in uses.items() if nm in REMOVERS for f, c in xs]
    pops = [(f, c) for nm, f, c in removers if nm == "pop_front"]
    other = [(nm, f, c) for nm, f, c in removers if nm != "pop_front"]
    ctx.ob("R9.10", "window:removals", len(pops) == 1 and not other,
           "the only removal from the look-ahead window is one pop_front (in %s); methods used on it: %s" % (
               last_seg(pops[0][0].root) if pops else "?", {k: len(v) for k, v in sorted(uses.items())}) if len(pops) == 1 and not other else
           "the look-ahead window is shrunk by %s" % sorted((nm, last_seg(f.root)) for nm, f, c in removers), pops[0][1].where() if pops else "")
    ctx.floor("methods applied to Parser::current_terminals", sum(len(v) for v in uses.values()), 5)
    pushers = {f.path for nm in ("push_back",) for f, c in uses.get(nm, [])}
    # the window is assigned only when the parser is built, and the constructor fills it before returning
    writes = []
    builders = []
    for p, f in F.fns.items():
        if not f.body or f.crate != "cairo_lang_parser":
            continue
        for i, j, st in f.stmts():
            if st[0] != "a":
                continue
            if st[2][0] == "agg" and st[2][1] == "adt" and st[2][2] == PARSER:
                builders.append(f)
            dst = st[1]
            if not isinstance(dst, int) and dst[1]:
                e = dst[1][-1]
                if isinstance(e, list) and e[0] == "f" and e[2] in ("current_terminals", "eof") and len(e) > 3 and e[3] == PARSER:
                    writes.append((e[2], f, st))
    ok_b = len(builders) == 1
    filled = False
    if ok_b:
        nf = builders[0]
        fills = [c for c in nf.calls() if c.path in pushers]
        filled = bool(fills) and all(any(nf.dominates(c.bb, r) for c in fills) for r in nf.return_blocks())
    ctx.ob("R9.10", "window:filled-at-construction", ok_b and filled,
           "Parser is built in one place (%s), which fills the look-ahead window before it returns" % (last_seg(builders[0].root) if builders else "?") if ok_b and filled else
           "Parser is built in %s; a return of the constructor is not dominated by a call that fills the window" % sorted(last_seg(b.root) for b in builders),
           builders[0].where() if builders else "")
    win_writes = [(fld, f) for fld, f, st in writes if fld == "current_terminals"]
    ctx.ob("R9.10", "window:not-reassigned", not win_writes, "current_terminals is never assigned outside the constructor" if not win_writes else
           "current_terminals is assigned in %s" % sorted(last_seg(f.root) for _, f in win_writes), "")
    # `eof` is set only where a terminal is pushed, from a comparison of its kind with TerminalEndOfFile
    bad_eof = []
    n_eof = 0
    for fld, f, st in writes:
        if fld != "eof":
            continue
        n_eof += 1
        toks = set()
        for o in rvalue_operands(st[2]):
            toks |= op_prov(f, o, 8)
        from_cmp = ("c:eq" in toks or "op:Eq" in toks) and "f:kind" in toks
        names_eof = "TerminalEndOfFile" in json.dumps([f.d.get("body"), f.d.get("promoted")])
        if not (f.path in pushers and from_cmp and names_eof):
            bad_eof.append(last_seg(f.root))
    ctx.ob("R9.10", "window:eof-flag", n_eof >= 1 and not bad_eof,
           "Parser::eof is written only where a terminal is pushed on the window, from `kind == TerminalEndOfFile` (%d write(s))" % n_eof if n_eof and not bad_eof else
           "Parser::eof is written in %s without deriving from a comparison of the pushed terminal's kind with TerminalEndOfFile" % bad_eof, "")
    # advance refills to at least 3 before it pops (the pop may sit in a helper: then every call of the helper is preceded
    # by the refill)
    if pops:
        def refill_depth(fn, bb):
            best = None
            for c in fn.calls():
                if c.path in pushers and c.bb != bb and fn.dominates(c.bb, bb):
                    for a in c.args[1:]:
                        k = op_const(a)
                        if k and k[0] == "int":
                            best = k[1] if best is None else max(best, k[1])
            return best

        def guarded(fn, bb, depth=0):
            """(ok, least refill depth found, where it fails)"""
            d = refill_depth(fn, bb)
            if d is not None:
                return (d >= 3, d, None if d >= 3 else last_seg(fn.root))
            if depth >= 3:
                return (False, None, last_seg(fn.root))
            callers = [(g, c) for g in F.fns.values() if g.body and g.crate == "cairo_lang_parser" for c in g.calls() if c.path == fn.path]
            if not callers:
                return (False, None, last_seg(fn.root))
            least = None
            for g, c in callers:
                ok_, d_, wh = guarded(g, c.bb, depth + 1)
                if not ok_:
                    return (False, d_, wh)
                least = d_ if least is None else min(least, d_)
            return (True, least, None)
        af, pc = pops[0]
        ok_, depth, wh = guarded(af, pc.bb)
        ctx.ob("R9.10", "window:refill-before-pop", ok_,
               "the window is refilled to %s terminals (or to the end of file) before the pop in %s, on every way to it: two look-aheads stay valid unless the next terminal is the end of file" % (depth, last_seg(af.root))
               if ok_ else "the pop in %s is not preceded by a refill to at least 3 terminals (found %s, in %s)" % (last_seg(af.root), depth, wh), pc.where())


def _controls(ctx, F, names, summaries, pfns):
    # a take after the wrong test: in try_parse_token the state must be {KIND:Terminal}; with TOP it is not accepted
    p = [q for q in pfns if q.endswith("::try_parse_token")]
    ok = False
    if p:
        kf = KindFlow(F, pfns[p[0]], names, summaries)
        at = kf.run(TOP)
        for c in pfns[p[0]].calls():
            if c.name() == "take":
                ok = at.get(c.bb) == {"KIND:Terminal"}
    ctx.control("take in try_parse_token is justified only by its own T::KIND test", ok)
    # progress: parse_list whose recovery reports instead of skipping must be seen to spin
    import copy
    from . import parser_ai as A
    from .lib import Fn
    from .guards import natural_loops
    ai, F2, pf, contexts = ctx._c09_ai
    pl = [q for q in pf if q.endswith("::parse_list")]
    fired = False
    if pl:
        f = pf[pl[0]]
        d = copy.deepcopy(f.d)
        hit = 0
        for bl in d["body"]["blocks"]:
            t = bl["t"]
            if t[0] == "call" and t[1].get("path", "").endswith("::skip_token"):
                t[1]["path"] = t[1]["path"].replace("::skip_token", "::add_diagnostic")
                hit += 1
        m = Fn(d, f.crate)
        ai2 = A.ParserAI(F2, names)
        loops = natural_loops(m)
        for h in (loops.keys() if isinstance(loops, dict) else [x for x, _ in loops]):
            for cx in contexts[pl[0]]:
                for k in [n for n in names if n.startswith("Terminal")]:
                    ai2.from_block(m, h, k, cx[0], cx[1])
        fired = hit > 0 and bool(ai2.cycles)
    ctx.control("parse_list that reports instead of skipping is seen to spin", fired)
