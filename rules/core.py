"""Check runner plumbing: context, obligations, known findings, evidence, exit codes."""
import hashlib
import importlib
import json
import os
import sys
import time
import traceback

from . import facts as factsmod
from .facts import CheckBroken
from .lib import Facts, AnchorError

VERIF = factsmod.VERIF
EVIDENCE_DIR = os.path.join(VERIF, "evidence")
KNOWN = os.path.join(VERIF, "known_findings.jsonl")


class Ctx:
    def __init__(self, prop, tier, seed):
        self.prop = prop
        self.tier = tier
        self.seed = seed
        self.repo = factsmod.repo_root()
        self.facts_dir = None
        self.facts_info = {}
        self.obligations = []     # dicts: rule, key, ok, msg, where
        self.counts = {}          # rule -> instances
        self.floors = []          # (name, count, minimum)
        self.controls = []        # (name, fired)
        self.notes = []
        self.samples = []
        self.assumptions = []
        self.functions_analysed = set()
        self.t0 = time.time()
        self._facts = {}

    # -- facts
    def load(self, crates=None, adts_only=()):
        key = (tuple(sorted(crates)) if crates is not None else None, tuple(sorted(adts_only)))
        if key not in self._facts:
            if self.facts_dir is None:
                self.facts_dir, self.facts_info = factsmod.ensure_facts()
            self._facts[key] = Facts(self.facts_dir, crates, adts_only=adts_only)
        from . import guards
        guards.CURRENT_FACTS = self._facts[key]      # lets the guard obligation look into the closures of a function
        return self._facts[key]

    def src(self, rel):
        with open(os.path.join(self.repo, rel), encoding="utf-8") as fh:
            return fh.read()

    # -- recording
    def ob(self, rule, key, ok, msg="", where=""):
        """Record one obligation (rule instance). key must not contain line numbers."""
        self.obligations.append({"rule": rule, "key": key, "ok": bool(ok), "msg": msg, "where": where})
        self.counts[rule] = self.counts.get(rule, 0) + 1
        return bool(ok)

    def floor(self, name, count, minimum):
        self.floors.append((name, count, minimum))

    def control(self, name, fired):
        self.controls.append((name, bool(fired)))

    def sample(self, s):
        if len(self.samples) < 12:
            self.samples.append(s)

    def analysed(self, fn):
        self.functions_analysed.add(fn.path if hasattr(fn, "path") else fn)


def load_known():
    known, fixed = {}, {}
    if os.path.exists(KNOWN):
        for line in open(KNOWN):
            line = line.strip()
            if not line or line.startswith("#"):
                continue
            d = json.loads(line)
            (fixed if d.get("status") == "fixed" else known)[(d["property"], d["key"])] = d
    return known, fixed


def main(argv):
    import argparse
    ap = argparse.ArgumentParser()
    ap.add_argument("prop")
    ap.add_argument("--tier", default=os.environ.get("VERIF_TIER", "quick"))
    ap.add_argument("--replay", default=None)
    a = ap.parse_args(argv)
    if a.prop == "replay":
        return replay(a.replay or (argv[1] if len(argv) > 1 else ""))
    prop = a.prop.upper()
    tier = a.tier if a.tier in ("quick", "thorough") else "quick"
    try:
        seed = int(os.environ.get("VERIF_SEED", "0"))
    except ValueError:
        seed = 0
    return run_check(prop, tier, seed)


def replay(path):
    d = json.load(open(path))
    print("replaying %s rule=%s key=%s" % (d["property"], d["rule"], d["key"]))
    os.environ["VERIF_ONLY_KEY"] = d["rule"] + "|" + d["key"]
    return run_check(d["property"], "quick", 0, only=(d["rule"], d["key"]))


def run_selftest(prop):
    """Thorough tier: mutants, benign variants and recorded seeds of this property on scratch copies."""
    import subprocess
    import tempfile
    out = tempfile.NamedTemporaryFile(prefix="verif-selftest-", suffix=".json", delete=False)
    out.close()
    try:
        subprocess.run([os.path.join(VERIF, "bin", "selftest"), "--prop", prop, "--json", out.name],
                       cwd=VERIF, stdout=sys.stderr, stderr=sys.stderr)
        return json.load(open(out.name))
    except Exception as e:
        return [{"case": "selftest", "kind": "harness", "property": prop, "exit": -1, "as_expected": False,
                 "expected": "harness runs", "report": [str(e)]}]
    finally:
        try:
            os.unlink(out.name)
        except OSError:
            pass


def run_check(prop, tier, seed, only=None):
    ctx = Ctx(prop, tier, seed)
    os.makedirs(EVIDENCE_DIR, exist_ok=True)
    ev_path = os.path.join(EVIDENCE_DIR, prop + ".json")
    if only is None and os.path.exists(ev_path):
        os.unlink(ev_path)
    try:
        mod = importlib.import_module("rules." + prop.lower())
    except ImportError as e:
        print("CHECK-BROKEN: no rule set for %s (%s)" % (prop, e))
        return 2
    broken = None
    try:
        mod.run(ctx)
    except (CheckBroken, AnchorError) as e:
        broken = "%s: %s" % (type(e).__name__, e)
    except Exception:
        broken = "rule set crashed:\n" + traceback.format_exc()
    if broken is not None:
        print("CHECK-BROKEN: property=%s %s" % (prop, broken))
        return 2
    # floors and positive controls gate the *pass* verdict only: a failing rule instance is reported
    # as a violation even if a control could not be evaluated on this (possibly already broken) tree
    soft_broken = None
    for name, count, minimum in ctx.floors:
        if count < minimum:
            soft_broken = "floor: %s has %d instances, expected at least %d" % (name, count, minimum)
            break
    if soft_broken is None:
        for name, fired in ctx.controls:
            if not fired:
                soft_broken = "positive control stayed silent: %s" % name
                break

    known, fixed = load_known()
    failing = [o for o in ctx.obligations if not o["ok"]]
    if only is not None:
        failing = [o for o in failing if (o["rule"], o["key"]) == tuple(only)]
    violations = []
    known_hits = []
    for o in failing:
        k = (prop, o["rule"] + "|" + o["key"])
        if k in known:
            known_hits.append((o, known[k]))
        else:
            violations.append(o)
    for o, kd in known_hits:
        print("KNOWN-FINDING: property=%s %s [%s] %s" % (prop, kd.get("what", o["msg"]), o["rule"], o["where"]))
    os.makedirs(os.path.join(EVIDENCE_DIR, "replay"), exist_ok=True)
    for o in violations:
        kh = hashlib.sha1((o["rule"] + "|" + o["key"]).encode()).hexdigest()[:10]
        rp = os.path.join(EVIDENCE_DIR, "replay", "%s-%s-%s.json" % (prop, o["rule"].replace("/", "_"), kh))
        json.dump({"property": prop, "rule": o["rule"], "key": o["key"], "msg": o["msg"],
                   "where": o["where"], "tier": tier}, open(rp, "w"), indent=1)
        print("%s: %s [%s] %s" % (o["where"] or "?", o["msg"], o["rule"], o["key"]))
        print("VIOLATION property=%s replay=%s" % (prop, rp))
    if only is not None:
        return 1 if violations else 0
    if soft_broken is not None and not violations:
        print("CHECK-BROKEN: property=%s %s" % (prop, soft_broken))
        return 2
    if soft_broken is not None:
        ctx.notes.append("not a clean run: " + soft_broken)

    selftest = None
    if tier == "thorough" and not os.environ.get("VERIF_SELFTEST"):
        selftest = run_selftest(prop)
        bad = [r for r in selftest if not r["as_expected"]]
        # The self-test exercises the *checker* on scratch variants of the tree (mutants must be reported, harmless
        # refactorings must not); its outcome is recorded in the evidence and printed, but the verdict about the tree
        # under analysis is that of the obligations above - a variant that no longer applies to a changed tree, or a
        # checker weakness it reveals, must not turn a holding property into a failed check.
        for r in bad[:6]:
            print("SELFTEST-UNEXPECTED: property=%s %s(%s) exit=%s expected %s" % (prop, r["case"], r["kind"], r["exit"], r["expected"]))
        if bad:
            ctx.notes.append("self-test: %d of %d scratch variants did not behave as expected: %s" % (
                len(bad), len(selftest), ", ".join(r["case"] for r in bad[:8])))
    n_ob = len(ctx.obligations)
    n_ok = sum(1 for o in ctx.obligations if o["ok"])
    distinct = len(set((o["rule"], o["key"]) for o in ctx.obligations))
    samples = list(ctx.samples)
    for o in ctx.obligations[:: max(1, n_ob // 6)][:6]:
        samples.append({"rule": o["rule"], "instance": o["key"], "where": o["where"],
                        "verdict": "holds" if o["ok"] else "fails", "detail": o["msg"][:200]})
    ev = {
        "property_id": prop,
        "tier": tier,
        "seed": seed,
        "level": "other",
        "coverage": {
            "explanation": getattr(mod, "EXPLANATION", ""),
            "rule": "each obligation is one instance (site, path or table row) of a structural rule "
                    "evaluated on the type-resolved MIR of /repo's current tree; distinct = distinct "
                    "(rule, instance key) pairs",
            "evaluations": max(n_ob, 1),
            "distinct_nontrivial": distinct,
            "obligations": n_ob,
            "discharged": n_ok,
            "rule_instances": ctx.counts,
            "functions_analysed": len(ctx.functions_analysed),
            "floors": [{"name": n_, "count": c, "min": m} for n_, c, m in ctx.floors],
            "positive_controls_fired": [n_ for n_, f in ctx.controls if f],
            "known_findings_matched": len(known_hits),
            "samples": samples or [{"note": "no instances"}],
            "facts": {k: ctx.facts_info.get(k) for k in ("tree_hash", "files", "bytes", "members", "cached", "extract_s")},
            "checker_cmd": "./bin/check %s --tier %s" % (prop, tier),
            "trusted_base": ["rustc nightly MIR construction and trait resolution", "engine/src/main.rs fact dump",
                             "rules/lib.py CFG/dominator/flow library"],
            "notes": ctx.notes,
            "selftest": selftest,
            "exhaustive": bool(getattr(mod, "EXHAUSTIVE", False)),
        },
        "assumptions": list(getattr(mod, "ASSUMPTIONS", [])) + ctx.assumptions,
        "wall_s": round(time.time() - ctx.t0, 2),
        "violations": len(violations),
    }
    json.dump(ev, open(ev_path, "w"), indent=1)
    print("%s %s: %d obligations, %d discharged, %d known findings, %d violations (%.1fs)" % (
        prop, tier, n_ob, n_ok, len(known_hits), len(violations), time.time() - ctx.t0))
    return 1 if violations else 0
