"""C14 - untrusted Sierra is handled totally (clauses: bounded allocation; the panic-capable
sites reachable from the untrusted-Sierra entry points are an inventoried set that does not grow;
the validations that protect them are on every path)."""
import os
import re
from collections import Counter, defaultdict

from .guards import (Cmp, CallResult, Field, check_guard, prov, op_prov, bool_condition, marker_matches,
                     blocks_constructing)
from .lib import (fn_key, CallGraph, op_local, op_const, op_place, place_local, strip_generics, last_seg,
                  rvalue_operands, AnchorError)

EXPLANATION = (
    "Decides three structural clauses of C14. R14.1 bounded allocation: every allocation in code reachable "
    "from the untrusted-Sierra entry points whose size is not a constant derives from the length of already "
    "materialised data, from a <=16-bit quantity, or is dominated by a comparison against the remaining input "
    "with an error edge (vec_with_bounded_capacity). R14.2 inventory: the multiset of panic-capable sites "
    "(MIR overflow/bounds/division asserts, explicit panics, and calls of panicking library entry points such "
    "as unwrap/expect/index/zip_eq/sum/into_or_panic) in functions reachable from those entry points, keyed by "
    "(function, kind), is a subset of the recorded inventory tables/c14_sites.tsv; a site that is not in the "
    "inventory is a violation. Inventory classes: I impossible, V protected by a validation obligation, C "
    "compiler-table consistency, U inherited baseline not individually triaged (no safety is claimed for U "
    "sites; the clause decided for them is only that the set does not grow). R14.3: the validations that V "
    "sites rely on are on every path with the right relation. R14.4: every rejection of the pipeline's error "
    "enums that was constructed in reachable code still is. Termination and memory bounds beyond R14.1 are "
    "not decided.")
ASSUMPTIONS = [
    "external crates are leaves: their panics are modelled by the list of panicking entry points in rules/c14.py",
    "calls through trait objects / type parameters are resolved by class hierarchy over workspace impls",
    "class U inventory entries are not individually triaged",
]
EXHAUSTIVE = True
CRATES = ["cairo_lang_starknet_classes", "cairo_lang_sierra", "cairo_lang_sierra_type_size", "cairo_lang_sierra_gas",
          "cairo_lang_sierra_ap_change", "cairo_lang_sierra_to_casm", "cairo_lang_casm", "cairo_lang_eq_solver",
          "cairo_lang_utils"]
TABLE = os.path.join(os.path.dirname(__file__), "..", "tables", "c14_sites.tsv")
ALLOC_TABLE = os.path.join(os.path.dirname(__file__), "..", "tables", "c14_alloc.tsv")

ROOTS = [
    ("cairo_lang_starknet_classes::contract_class::ContractClass", "extract_sierra_program"),
    ("cairo_lang_starknet_classes::felt252_serde::", "sierra_from_felt252s"),
    ("cairo_lang_starknet_classes::felt252_serde::", "version_id_from_felt252s"),
    ("cairo_lang_starknet_classes::felt252_vec_compression::", "decompress"),
    ("cairo_lang_sierra::program_registry::ProgramRegistry", "new"),
    ("cairo_lang_sierra_type_size::ProgramRegistryInfo", "new"),
    ("cairo_lang_sierra_to_casm::metadata::", "calc_metadata"),
    ("cairo_lang_sierra_to_casm::metadata::", "calc_metadata_ap_change_only"),
    ("cairo_lang_sierra_to_casm::compiler::", "compile"),
    ("cairo_lang_starknet_classes::casm_contract_class::CasmContractClass", "from_contract_class"),
    ("cairo_lang_starknet_classes::casm_contract_class::CasmContractClass", "from_contract_class_with_debug_info"),
    ("cairo_lang_starknet_classes::contract_class::ExtractedSierraProgram", "validate_version_compatible"),
]

ASSERT_KINDS = ("BoundsCheck", "Overflow", "OverflowNeg", "DivisionByZero", "RemainderByZero")

# Panicking entry points of external crates (matched on the generic-stripped callee path or on the
# trait method the call goes through).
PANICKING = [
    (r"core::option::Option::(unwrap|expect)$", "unwrap"),
    (r"core::result::Result::(unwrap|expect|unwrap_err|expect_err)$", "unwrap"),
    (r"::index(_mut)?$", "index"),
    (r"zip_eq$", "zip_eq"),
    (r"core::slice::(split_at|split_at_mut|copy_from_slice|clone_from_slice|swap|chunks|chunks_exact|windows|rotate_left|rotate_right)$", "slice"),
    (r"alloc::vec::Vec::(remove|swap_remove|insert|drain|split_off|truncate_front)$", "vec"),
    (r"alloc::collections::vec_deque::VecDeque::(remove|swap|insert|drain|range)$", "vecdeque"),
    (r"core::iter::traits::iterator::Iterator::(sum|product|step_by)$", "iter-arith"),
    (r"core::iter::traits::accum::(Sum|Product)::(sum|product)$", "iter-arith"),
    (r"core::num::(pow|abs|next_power_of_two|ilog|ilog2|ilog10|div_euclid|rem_euclid|div_ceil|div_floor|next_multiple_of|isqrt)$", "int-arith"),
    (r"core::cell::RefCell::(borrow|borrow_mut)$", "refcell"),
    (r"num_bigint::bigint::division::(div|rem)$", "bigint-div"),
    (r"num_bigint::biguint::division::(div|rem)$", "bigint-div"),
    (r"::div_rem$", "bigint-div"),
    (r"::(div_floor|mod_floor|div_mod_floor)$", "bigint-div"),
    (r"num_bigint::big(int|uint)::shift::(shl|shr|shl_assign|shr_assign)$", "bigint-shift"),
    (r"num_bigint::big(int|uint)::Big(Int|Uint)::pow$", "bigint-pow"),
    (r"num_traits::pow::Pow::pow$", "bigint-pow"),
    (r"starknet_types_core::felt::Felt::(field_div|pow)$", "felt"),
    (r"core::str::(split_at|get_unchecked)$", "str"),
    (r"::from_str_radix$", "parse"),
    (r"core::char::from_digit$", "char"),
    (r"core::array::(from_fn)$", "skip"),
]
PANICKING = [(re.compile(p), k) for p, k in PANICKING]
GENERIC_INT_OP = re.compile(r"^core::ops::(arith|bit)::(Add|Sub|Mul|Div|Rem|Neg|Shl|Shr|AddAssign|SubAssign|MulAssign|DivAssign|RemAssign)::\w+$")
INT_OP_BY_REF = re.compile(r"^<&?(?:'\w+ )?(?:mut )?([iu](?:8|16|32|64|128|size)) as core::ops::(arith|bit)::"
                           r"(Add|Sub|Mul|Div|Rem|Neg|Shl|Shr|AddAssign|SubAssign|MulAssign|DivAssign|RemAssign|ShlAssign|ShrAssign)\b")
DIVERGING = re.compile(r"core::panicking::|core::option::(unwrap_failed|expect_failed)|core::result::unwrap_failed|"
                       r"core::slice::index::slice_|core::str::slice_error|std::rt::begin_panic|alloc::raw_vec::capacity_overflow|"
                       r"core::cell::panic_already|std::process::(exit|abort)|alloc::alloc::handle_alloc_error")


def site_kinds(fn, wrappers):
    """Yields (kind, line) for every panic-capable site of a function."""
    for i, b in enumerate(fn.blocks):
        t = b["t"]
        if t[0] == "assert":
            k = t[3].split("(")[0]
            if k in ASSERT_KINDS:
                ty = ""
                if t[4]:
                    l = op_local(t[4][0])
                    if l is not None:
                        ty = fn.local_ty(l)
                    elif t[4][0][0] == "k" and len(t[4][0]) > 3:
                        ty = t[4][0][3]
                    if k == "BoundsCheck" and len(t[4]) > 1:
                        ty = "index"
                yield ("assert:%s:%s" % (t[3], ty), t[6])
        elif t[0] == "call":
            cal = t[1]
            p = strip_generics(cal.get("path", ""))
            via = strip_generics(cal.get("via", ""))
            if t[7] and DIVERGING.search(p):
                mac = [m for m in (t[6] or []) if not m.startswith("desugar") and not m.startswith("$crate")]
                # the outermost user-visible macro names the site
                name = mac[-1] if mac else last_seg(p)
                yield ("panic:%s" % name, t[5])
                continue
            m_ = INT_OP_BY_REF.match(cal.get("path", ""))
            if m_:
                # `a - b` with a reference operand is a call of core's forwarding impl, not a checked BinaryOp: same panics
                yield ("call:int-arith-by-ref:%s:%s" % (m_.group(3), m_.group(1)), t[5])
                continue
            m_ = GENERIC_INT_OP.match(cal.get("path", ""))
            if m_ and cal.get("r") in ("unresolved", "virtual", None) and t[2]:
                # an operator of a type parameter: it is instantiated with whatever the callers choose, integers included
                l_ = op_local(t[2][0])
                ty_ = fn.local_ty(l_) if l_ is not None else ""
                if ty_ and not ty_.startswith("&") and ("::" not in ty_ or ty_.startswith("<")):
                    yield ("call:generic-arith:%s" % m_.group(2), t[5])
                    continue
            if fn_key(cal.get("path", "")) in wrappers:
                yield ("call:%s" % fn_key(cal.get("path", "")), t[5])
                continue
            for rx, k in PANICKING:
                if k == "skip":
                    continue
                if rx.search(p) or (via and rx.search(via)):
                    if k == "iter-arith":
                        # only integer accumulations can overflow
                        dl = place_local(t[3])
                        if not re.search(r"\b[iu](8|16|32|64|128|size)\b", fn.local_ty(dl)):
                            break
                    if k == "index":
                        recv = fn.local_ty(op_local(t[2][0])) if t[2] and op_local(t[2][0]) is not None else ""
                        yield ("call:index:%s" % _short_ty(recv), t[5])
                    else:
                        yield ("call:%s" % (p if not via else via), t[5])
                    break


def _short_ty(ty):
    ty = ty.replace("&mut ", "").replace("&", "")
    ty = strip_generics(ty)
    return ty.rsplit("::", 1)[-1] if "::" in ty else ty


def panic_wrappers(F):
    """Functions of the generic utility crate whose own body has a panic site: a call to one of them is
    a site of the caller (e.g. IntoOrPanic::into_or_panic, extract_matches helpers)."""
    out = set()
    for f in F.fns.values():
        if f.crate != "cairo_lang_utils" or not f.body or "{closure" in f.path:
            continue
        if any(True for _ in site_kinds(f, ())) or any(any(True for _ in site_kinds(g, ())) for g in F.closures_of(f)):
            # (the panic may sit in a closure of the wrapper: `x.try_into().unwrap_or_else(|_| panic!(..))`)
            out.add(fn_key(f.path))
    return out


def load_table(path):
    rows = {}
    if os.path.exists(path):
        for line in open(path):
            if not line.strip() or line.startswith("#"):
                continue
            parts = line.rstrip("\n").split("\t")
            if len(parts) < 4:
                continue
            fn, kind, count, cls = parts[:4]
            reason = parts[4] if len(parts) > 4 else ""
            rows[(fn, kind)] = (int(count), cls, reason)
    return rows


def inventory(F, reach, wrappers):
    inv = Counter()
    lines = {}
    for p in reach:
        f = F.fns[p]
        for kind, line in site_kinds(f, wrappers):
            key = (fn_key(p), kind)
            inv[key] += 1
            lines.setdefault(key, []).append((f.file, line))
    return inv, lines


def crate_of(fnp):
    m = re.search(r"([a-z_][a-z0-9_]*)::", fnp)
    return m.group(1) if m else "?"


def kind_family(kind):
    """Site kinds that one and the same source construct produces depending on the static type it is applied to
    (`v[i]` on a Vec is a call of Index::index, on a slice a bounds-check assert) are one family for the move budget."""
    if kind.startswith("call:index:") or kind.startswith("assert:BoundsCheck"):
        return "index"
    if kind.startswith("call:core::option::Option::unwrap") or kind.startswith("call:core::option::Option::expect") \
            or kind.startswith("call:core::result::Result::unwrap") or kind.startswith("call:core::result::Result::expect"):
        return "unwrap"
    return kind


def moved_sites(inv, table):
    """Sites that left a function (`deficit`) can account for the same number of sites of the same kind that appear
    in another function of the same crate: a function was split, merged, renamed or its code moved.  Returns
    {(crate, kind): number of excess sites that such moves explain}."""
    deficit = Counter()
    for key, have in table.items():
        n = inv.get(key, 0)
        if have[0] > n:
            deficit[(crate_of(key[0]), kind_family(key[1]))] += have[0] - n
    return deficit


def run(ctx):
    F = ctx.load(CRATES)
    cg = CallGraph(F)
    roots = []
    for frag, name in ROOTS:
        r = [f for f in F.find(frag, name=name) if f.kind in ("Fn", "AssocFn")]
        if len(r) != 1:
            raise AnchorError("entry point %s%s resolves to %d functions" % (frag, name, len(r)))
        roots.append(r[0].path)
    reach = cg.reachable(roots)
    ctx.floor("functions reachable from the untrusted-Sierra entry points", len(reach), 1500)
    for p in reach:
        ctx.analysed(p)
    wrappers = panic_wrappers(F)

    # ---------------- R14.2 inventory
    inv, lines = inventory(F, reach, wrappers)
    if os.environ.get("VERIF_C14_WRITE_BASELINE"):
        _write_baseline(inv, load_table(TABLE))
    table = load_table(TABLE)
    ctx.floor("panic-capable sites inventoried", sum(inv.values()), 500)
    classes = Counter()
    n_new = 0
    budget = moved_sites(inv, table)
    excess = Counter()
    for key, n in inv.items():
        have = table.get(key)
        if have is None or n > have[0]:
            excess[(crate_of(key[0]), kind_family(key[1]))] += n - (have[0] if have else 0)
    for key, n in sorted(inv.items()):
        fnp, kind = key
        have = table.get(key)
        where = "%s:%s" % lines[key][0]
        ck = (crate_of(fnp), kind_family(kind))
        if (have is None or n > have[0]) and excess[ck] <= budget[ck]:
            # as many sites of this kind left other functions of the crate as appeared here: code was moved
            classes["moved"] += n
            ctx.ob("R14.2", "%s|%s" % (fnp, kind), True,
                   "%d site(s) of kind %s appear here while %d left other functions of %s: moved, the multiset did not grow" % (
                       n - (have[0] if have else 0), kind, budget[ck], ck[0]), where)
            continue
        if have is None:
            wit = " <- ".join(last_seg(x) for x in CallGraph.witness(reach, _unstrip(F, reach, fnp))[-4:])
            ctx.ob("R14.2", "%s|%s" % (fnp, kind), False,
                   "new panic-capable site (%s) x%d on the untrusted-Sierra path [%s]" % (kind, n, wit), where)
            n_new += 1
        elif n > have[0]:
            ctx.ob("R14.2", "%s|%s" % (fnp, kind), False,
                   "panic-capable sites of kind %s in this function grew from %d to %d" % (kind, have[0], n), where)
            n_new += 1
        else:
            classes[have[1]] += n
            if have[1] == "F":
                ctx.ob("R14.2", "%s|%s" % (fnp, kind), False, "recorded finding: %s" % have[2], where)
    ctx.ob("R14.2", "inventory", True, "sites by class: %s (inventory rows: %d)" % (dict(classes), len(table)), "")
    ctx.notes.append("inventory classes: %s" % dict(classes))
    ctx.sample({"reachable_functions": len(reach), "sites": sum(inv.values()), "classes": dict(classes)})

    # ---------------- R14.1 bounded allocation
    exc = {}
    if os.path.exists(ALLOC_TABLE):
        for line in open(ALLOC_TABLE):
            if line.strip() and not line.startswith("#"):
                parts = line.rstrip("\n").split("\t")
                exc[parts[0]] = parts[1] if len(parts) > 1 else ""
    n_alloc = 0
    for p in sorted(reach):
        f = F.fns[p]
        ords = Counter()
        for c in f.calls():
            size_op = _alloc_size_operand(c)
            if size_op is None:
                continue
            n_alloc += 1
            nm = c.name()
            ords[nm] += 1
            key = "%s|%s#%d" % (fn_key(p), nm, ords[nm])
            cls, why = classify_size(F, cg, reach, f, size_op, c, 0)
            if cls is None and key in exc:
                cls, why = "exception", exc[key]
            ctx.ob("R14.1", key, cls is not None,
                   ("size is %s: %s" % (cls, why)) if cls else "allocation sized by a value that is neither constant, a length of "
                   "materialised data, a <=16-bit quantity nor checked against the remaining input: %s" % why, c.where())
    ctx.floor("allocation sites", n_alloc, 30)

    # ---------------- R14.3 validation obligations (those not already under C15)
    def g(key, fn, matcher, err=None, rel=None, **kw):
        r = check_guard(fn, matcher, err=err, expect_rel=rel, **kw)
        ctx.ob("R14.3", key, r.ok, r.msg, fn.where(r.line))
    SC = "cairo_lang_starknet_classes::"
    vbc = F.find1(SC + "felt252_serde::vec_with_bounded_capacity")
    g("vec_with_bounded_capacity:remaining<size", vbc, Cmp("lt", "arg:2", "arg:1"), rel="lt",
      err=("Felt252SerdeError", "InvalidInputForDeserialization"),
      protects=[c.bb for c in vbc.calls() if c.name() == "with_capacity"])
    # every caller passes the remaining input length as the bound
    n_callers = 0
    for c in F.callers_of("felt252_serde::vec_with_bounded_capacity"):
        n_callers += 1
        toks = op_prov(c.fn, c.args[1], 8)
        ctx.ob("R14.3", "vec_with_bounded_capacity:caller:%s#%d" % (fn_key(c.fn.path), n_callers),
               "c:len" in toks and ("a:input" in toks or "n:input" in toks),
               "bound is input.len(): %s" % sorted(x for x in toks if x[:2] in ("c:", "a:"))[:5], c.where())
    ctx.floor("vec_with_bounded_capacity callers", n_callers, 4)
    dec = F.find1(SC + "felt252_vec_compression::decompress")
    n_req = len([c for c in dec.calls() if c.name() == "require"])
    ctx.ob("R14.3", "decompress:require-count", n_req >= 2, "decompress validates its header with %d require() guards" % n_req, dec.where())
    for c in [c for c in dec.calls() if c.name() == "require"]:
        r = check_guard(dec, CallResult("require", "Break"), bypass="none")
        ctx.ob("R14.3", "decompress:require-propagated", r.ok, r.msg, dec.where(r.line))
        break
    esp = F.find1(SC + "contract_class::ContractClass", name="extract_sierra_program")
    ctx.ob("R14.3", "extract_sierra_program:prime-bound", any(
        c.name() in ("lt", "le", "gt", "ge", "cmp") or "prime" in c.path.lower() for f in F.with_closures(esp) for c in f.calls())
        or any(st[0] == "a" and st[2][0] == "bin" and st[2][1] in ("Lt", "Le", "Gt", "Ge") for f in F.with_closures(esp) for _, _, st in f.stmts()),
        "felts are range-checked against the prime before deserialisation", esp.where())
    tsz = F.find1("cairo_lang_sierra_type_size::get_type_size_map")
    tso = [f for f in F.with_closures(tsz) if blocks_constructing(f, "ProgramRegistryError", "TypeSizeOverflow")]
    ctx.ob("R14.3", "get_type_size_map:TypeSizeOverflow", bool(tso), "overflowing sizes are rejected with TypeSizeOverflow", tsz.where())

    # every branch destination is range-checked, whatever the kind of target (the per-statement vectors of the gas /
    # ap-change passes and of the compiler are indexed by destinations without a further test)
    vst = F.find1("cairo_lang_sierra::program_registry::ProgramRegistry", name="validate_statement")
    g("validate_statement:destination>=len", vst, Cmp("ge", None, "c:len"), rel="ge",
      err=("ProgramRegistryError", "JumpOutOfRange"))

    # ---------------- R14.7 a division by an untrusted value is preceded by a test of that value
    _divisions(ctx, F, reach)
    _data_arg_counts(ctx, F, reach)
    _rejection_unwraps(ctx, F, reach)

    # ---------------- R14.4 no dead rejection
    ERR_ENUMS = ["cairo_lang_sierra::program_registry::ProgramRegistryError",
                 "cairo_lang_sierra_to_casm::compiler::CompilationError",
                 "cairo_lang_sierra_to_casm::annotations::AnnotationError",
                 "cairo_lang_sierra_to_casm::invocations::InvocationError",
                 "cairo_lang_starknet_classes::felt252_serde::Felt252SerdeError",
                 "cairo_lang_starknet_classes::casm_contract_class::StarknetSierraCompilationError",
                 "cairo_lang_starknet_classes::contract_segmentation::SegmentationError",
                 "cairo_lang_sierra_ap_change::ApChangeError", "cairo_lang_sierra_gas::CostError",
                 "cairo_lang_sierra::extensions::lib_func::SpecializationError" if False else "cairo_lang_sierra::extensions::SpecializationError",
                 "cairo_lang_sierra::edit_state::EditStateError",
                 "cairo_lang_sierra_to_casm::references::ReferencesError",
                 "cairo_lang_sierra_to_casm::environment::frame_state::FrameStateError",
                 "cairo_lang_sierra_to_casm::environment::gas_wallet::GasWalletError",
                 "cairo_lang_sierra_to_casm::environment::EnvironmentError",
                 "cairo_lang_sierra_to_casm::annotations::InconsistentReferenceError",
                 "cairo_lang_sierra_to_casm::metadata::MetadataError"]
    constructed = defaultdict(set)
    for p in reach:
        f = F.fns[p]
        for _, _, st in f.stmts():
            if st[0] == "a" and st[2][0] == "agg" and st[2][1] == "adt":
                constructed[st[2][2]].add(st[2][4])
            if st[0] == "a":
                for o in rvalue_operands(st[2]):
                    # unit-like / tuple variants used as function values: `map_err(Error::Variant)`
                    if o[0] == "k" and o[1] == "fn":
                        pth = o[2].get("path", "")
                        for e in ERR_ENUMS:
                            if pth.startswith(e + "::"):
                                constructed[e].add(last_seg(pth))
        for c in f.calls():
            for a in c.args:
                if a[0] == "k" and a[1] == "fn":
                    pth = a[2].get("path", "")
                    for e in ERR_ENUMS:
                        if pth.startswith(e + "::"):
                            constructed[e].add(last_seg(pth))
            for e in ERR_ENUMS:
                if c.path.startswith(e + "::"):
                    constructed[e].add(last_seg(c.path))
    dead_table = os.path.join(os.path.dirname(__file__), "..", "tables", "c14_rejections.tsv")
    want = {}
    if os.path.exists(dead_table):
        for line in open(dead_table):
            if line.strip() and not line.startswith("#"):
                a, b = line.rstrip("\n").split("\t")[:2]
                want.setdefault(a, set()).add(b)
    if os.environ.get("VERIF_C14_WRITE_BASELINE"):
        with open(dead_table, "w") as fh:
            fh.write("# error enum <TAB> variant constructed in code reachable from the untrusted-Sierra entry points (R14.4)\n")
            for e in ERR_ENUMS:
                for v in sorted(constructed.get(e, ())):
                    fh.write("%s\t%s\n" % (e, v))
        want = {e: set(constructed.get(e, ())) for e in ERR_ENUMS}
    n_rej = 0
    for e, vs in sorted(want.items()):
        for v in sorted(vs):
            n_rej += 1
            ctx.ob("R14.4", "%s::%s" % (e, v), v in constructed.get(e, ()),
                   "rejection %s::%s is %s in reachable code" % (last_seg(e), v,
                                                                 "constructed" if v in constructed.get(e, ()) else "NO LONGER constructed (a validation was removed)"), "")
    ctx.floor("rejections tracked", n_rej, 60)
    _loops(ctx, F, reach)
    _validator_calls(ctx, F, reach)
    _controls(ctx, F, wrappers)


def _unstrip(F, reach, stripped):
    for p in reach:
        if fn_key(p) == stripped:
            return p
    return stripped


def _alloc_size_operand(c):
    n = c.name()
    p = c.path
    if n in ("with_capacity", "with_capacity_and_hasher") and ("Vec" in p or "HashMap" in p or "HashSet" in p or "String" in p
                                                                 or "IndexMap" in p or "IndexSet" in p or "VecDeque" in p
                                                                 or "UnorderedHash" in p or "OrderedHash" in p or "SmallVec" in p):
        return c.args[0] if c.args else None
    if n == "from_elem" and len(c.args) >= 2:
        return c.args[1]
    if n in ("reserve", "reserve_exact", "resize", "resize_with") and len(c.args) >= 2:
        return c.args[1]
    if n == "repeat_n" and len(c.args) >= 2:
        return c.args[1]
    if n == "repeat" and "str" in p and len(c.args) >= 2:
        return c.args[1]
    return None


SMALL_INT = re.compile(r"^(i8|u8|i16|u16|bool)$")


def classify_size(F, cg, reach, fn, op, call, depth):
    """Returns (class, why) or (None, description)."""
    k = op_const(op)
    if k is not None:
        return "constant", str(k[1])
    l = op_local(op)
    if l is None:
        return None, "?"
    toks = prov(fn, l, 10)
    locals_seen = _slice_locals(fn, l)
    # bounded by type: some local on the slice is a <=16-bit integer that is widened
    for x in locals_seen:
        if SMALL_INT.match(fn.local_ty(x)):
            return "bounded by type", "derives from a %s value" % fn.local_ty(x)
    if any(t in toks for t in ("c:len", "c:count", "c:size_hint", "c:capacity", "c:min")) or "op:PtrMetadata" in toks:
        return "bounded by existing data", "derives from %s" % sorted(t for t in toks if t in ("c:len", "c:count", "c:size_hint", "c:min", "op:PtrMetadata"))
    consts_only = toks and all(t.startswith(("k:", "op:", "n:", "const:")) for t in toks)
    if consts_only:
        return "constant", "computed from constants"
    # dominated by a comparison with an error edge on the same value
    for bb, t in fn.switches():
        info, flip = bool_condition(fn, bb)
        if info and info[0] == "bin" and info[1] in ("Lt", "Le", "Gt", "Ge") and fn.dominates(bb, call.bb):
            ls = set()
            for o in (info[2], info[3]):
                ol = op_local(o)
                if ol is not None:
                    ls |= _slice_locals(fn, ol)
            if ls & locals_seen:
                return "checked", "size is compared at L%s before the allocation" % t[4]
    # purely an argument of this function: look at the callers
    args = [x for x in locals_seen if 1 <= x <= fn.argc]
    if args and depth < 2:
        callers = [c for p in reach for c in F.fns[p].calls() if c.path == fn.path or strip_generics(c.path) == strip_generics(fn.path)]
        if callers:
            res = []
            for c in callers:
                for a in args:
                    if a - 1 < len(c.args):
                        cls, why = classify_size(F, cg, reach, c.fn, c.args[a - 1], c, depth + 1)
                        res.append((cls, why, c))
            if res and all(r[0] for r in res):
                return "bounded at every caller", "; ".join(sorted(set("%s" % r[0] for r in res)))
            bad = [r for r in res if not r[0]]
            if bad:
                return None, "caller %s passes %s" % (bad[0][2].where(), bad[0][1])
    return None, "derives from %s" % sorted(t for t in toks if t[:2] in ("c:", "f:", "a:"))[:6]


def _slice_locals(fn, l, depth=10):
    """Locals on the backward slice of l through copies, casts, arithmetic and field reads."""
    seen = set()
    stack = [(l, 0)]
    while stack:
        x, d = stack.pop()
        if x in seen or d > depth:
            continue
        seen.add(x)
        for df in fn.defs().get(x, []):
            if df[0] == "stmt":
                rv = df[3]
                for o in rvalue_operands(rv):
                    ol = op_local(o)
                    if ol is not None:
                        stack.append((ol, d + 1))
                if rv[0] in ("ref", "disc"):
                    stack.append((place_local(rv[1]), d + 1))
            elif df[0] == "call":
                c = df[2]
                if c.name() in ("into", "from", "try_into", "unwrap", "into_or_panic", "to_usize", "clone", "to_owned",
                                "branch", "deref", "max", "min", "index", "saturating_sub", "abs", "unsigned_abs", "expect"):
                    for a in c.args:
                        al = op_local(a)
                        if al is not None:
                            stack.append((al, d + 1))
    return seen


def _write_baseline(inv, old):
    with open(TABLE, "w") as fh:
        fh.write("# C14 R14.2 inventory of panic-capable sites reachable from the untrusted-Sierra entry points.\n"
                 "# function <TAB> kind <TAB> count <TAB> class <TAB> reason\n"
                 "# classes: I impossible for any input; V protected by a validation obligation (R14.3/C15); C compiler-table\n"
                 "# consistency assertion; U inherited baseline, not individually triaged (no safety claimed); F recorded finding.\n")
        for (fnp, kind), n in sorted(inv.items()):
            o = old.get((fnp, kind))
            cls, reason = (o[1], o[2]) if o else ("U", "")
            fh.write("%s\t%s\t%d\t%s\t%s\n" % (fnp, kind, n, cls, reason))


LOOP_TABLE = os.path.join(os.path.dirname(__file__), "..", "tables", "c14_loops.tsv")
ITER_DRIVERS = ("next", "next_back", "pop", "pop_front", "pop_back", "next_if", "nth", "pop_first", "pop_last")


def _loop_class(f, h, body):
    """'iterator' | 'counter' | None: a termination argument that is visible in the loop itself."""
    from .guards import natural_loops
    # iterator / worklist driven: the loop is left on the None edge of next() / pop()
    for c in f.calls():
        if c.bb in body and c.name() in ITER_DRIVERS and c.target is not None:
            fl = f.flows_to(place_local(c.dest)) | {place_local(c.dest)}
            for bb in body:
                t = f.blocks[bb]["t"]
                if t[0] == "switch":
                    si = f.switch_info(bb)
                    if si and si[0] == "disc" and place_local(si[1]) in fl and any(s_ not in body for s_ in f.succ(bb)):
                        if c.name().startswith("pop") and not _worklist_is_marked(f, c, body):
                            return None       # a worklist that grows without marking what it has expanded
                        return "iterator"
    # counter: `while v.len() < n { .. v.push(..) .. }` - the compared length grows in every iteration
    for bb in body:
        t = f.blocks[bb]["t"]
        if t[0] != "switch" or not any(s_ not in body for s_ in f.succ(bb)):
            continue
        si = f.switch_info(bb)
        if si and si[0] == "bin" and si[1] in ("Lt", "Le", "Gt", "Ge"):
            for side in (si[2], si[3]):
                toks = op_prov(f, side, 8)
                if "c:len" in toks:
                    roots = {t_ for t_ in toks if t_.startswith(("n:", "arg:"))}
                    pushes = [c for c in f.calls() if c.bb in body and c.name() in ("push", "push_back", "insert", "extend") and c.args
                              and roots & op_prov(f, c.args[0], 8)]
                    if pushes and all(f.dominates(h, c.bb) for c in pushes):
                        # every way round passes a push?  (must-pass from header back to header)
                        if f.must_pass(h, [p_ for p_ in f.pred(h) if p_ in body], {c.bb for c in pushes}):
                            return "counter"
            # index counter: `while i < n { .. i += k .. }` (k a non-zero constant), every way round passes the step
            from .lib import operand_scalar
            for side in (si[2], si[3]):
                il = op_local(side)
                if il is None:
                    continue
                il = f.resolve_copy(il)
                steps = set()
                for i_, _, st in f.stmts():
                    if i_ in body and st[0] == "a" and st[2][0] == "bin" and st[2][1] in ("Add", "Sub", "AddWithOverflow", "SubWithOverflow", "AddUnchecked", "SubUnchecked"):
                        a_, b_ = st[2][2], st[2][3]
                        la_, lb2 = op_local(a_), op_local(b_)
                        k_ = operand_scalar(f, b_) if la_ is not None and f.resolve_copy(la_) == il else (
                            operand_scalar(f, a_) if lb2 is not None and f.resolve_copy(lb2) == il and st[2][1].startswith("Add") else None)
                        if isinstance(k_, int) and k_ != 0 and il in (f.flows_to(place_local(st[1])) | {place_local(st[1])}):
                            steps.add(i_)
                if steps and f.must_pass(h, [p_ for p_ in f.pred(h) if p_ in body], steps):
                    return "counter"
    return None


def _worklist_is_marked(f, pop_call, body):
    """A loop `while let Some(x) = stack.pop() { .. stack.push(child) .. }` terminates only if an element is expanded a
    bounded number of times: every path from the pop to a push onto the same collection passes a *mark* - an insert into
    a set / map (`visited.insert(x)`) or a write to an indexed status slot (`status[i] = InProgress`)."""
    def collection_of(op):
        """The local holding the collection that a `&mut coll` operand refers to."""
        l = op_local(op)
        for _ in range(6):
            if l is None:
                return None
            d = f.single_def(l)
            if d and d[0] == "stmt" and d[3][0] == "ref":
                l = place_local(d[3][1])
                continue
            if d and d[0] == "stmt" and d[3][0] in ("use", "cast"):
                o = d[3][1] if d[3][0] == "use" else d[3][2]
                nl = op_local(o)
                if nl is None or nl == l:
                    return l
                l = nl
                continue
            return l
        return l
    wl = collection_of(pop_call.args[0]) if pop_call.args else None

    def on_worklist(c):
        return bool(c.args) and wl is not None and collection_of(c.args[0]) == wl
    pushes = [c for c in f.calls() if c.bb in body and c.name() in ("push", "push_back", "push_front", "extend", "append", "extend_from_slice") and on_worklist(c)]
    if not pushes:
        return True
    marks = set()
    for c in f.calls():
        if c.bb in body and c.name() in ("insert", "replace", "entry") and c.args and not on_worklist(c):
            ty = f.local_ty(op_local(c.args[0])) or ""
            if "Set" in ty or "Map" in ty or "set::" in ty or "map::" in ty:
                marks.add(c.bb)
    for i, _, st in f.stmts():
        if i in body and st[0] == "a" and not isinstance(st[1], int) and any(isinstance(e, list) and e[0] in ("i", "ci") for e in st[1][1]):
            marks.add(i)
    return all(f.must_pass(pop_call.bb, {c.bb}, marks) or c.bb in marks for c in pushes)


def _lower_bound_before(g, call, arg_index):
    """The largest constant K such that a dominating test rejects `value < K` for the call's argument, else None."""
    from .lib import operand_scalar
    al = op_local(call.args[arg_index])
    if al is None:
        return None
    same = {g.resolve_copy(al), al}
    best = None
    for bb, t in g.switches():
        if not g.dominates(bb, call.bb) or bb == call.bb:
            continue
        si = g.switch_info(bb)
        if not si or si[0] != "bin" or si[1] not in ("Lt", "Le", "Gt", "Ge"):
            continue
        a, b = si[2], si[3]
        ka, kb = operand_scalar(g, a), operand_scalar(g, b)
        la, lb = op_local(a), op_local(b)
        if isinstance(kb, int) and la is not None and (g.resolve_copy(la) in same or la in same):
            val_first, K = True, kb
        elif isinstance(ka, int) and lb is not None and (g.resolve_copy(lb) in same or lb in same):
            val_first, K = False, ka
        else:
            continue
        # which edge continues to the call?
        cont = [s_ for s_ in g.succ(bb) if call.bb in (g.reachable_blocks(s_, avoid={bb}) | {s_})]
        if len(cont) != 1:
            continue
        edge_true = bool_edge_value_simple(g, bb, cont[0])
        if edge_true is None:
            continue
        op = si[1]
        # normalise to a relation `value OP K` that holds on the continuing edge
        rel = op if val_first else {"Lt": "Gt", "Le": "Ge", "Gt": "Lt", "Ge": "Le"}[op]
        if not edge_true:
            rel = {"Lt": "Ge", "Le": "Gt", "Gt": "Le", "Ge": "Lt"}[rel]
        lb_ = K if rel == "Ge" else (K + 1 if rel == "Gt" else None)
        if lb_ is not None and (best is None or lb_ > best):
            best = lb_
    return best


def bool_edge_value_simple(g, bb, succ):
    t = g.blocks[bb]["t"]
    for v, s_ in t[2]:
        if s_ == succ:
            return bool(v)
    if t[3] == succ:
        vals = {v for v, _ in t[2]}
        return (0 in vals) if vals == {0} else ((1 not in vals) if vals == {1} else None)
    return None


def _loops(ctx, F, reach):
    """R14.5: every loop on the untrusted path has a termination argument: it is driven by an iterator / worklist, it
    counts a growing length, or it is listed with an argument that depends on a precondition - which is then checked at
    every reachable caller."""
    from .guards import natural_loops
    table = {}
    if os.path.exists(LOOP_TABLE):
        for line in open(LOOP_TABLE):
            if line.strip() and not line.startswith("#"):
                p_ = line.rstrip("\n").split("\t")
                table[(p_[0], int(p_[1]))] = (p_[2], p_[3], p_[4] if len(p_) > 4 else "")
    n_loops = n_other = 0
    used = set()
    for p in sorted(reach):
        f = F.fns[p]
        if not f.body:
            continue
        loops = natural_loops(f)
        ordinal = 0
        for h, body in sorted(loops.items()):
            ordinal += 1
            n_loops += 1
            cls = _loop_class(f, h, body)
            if cls:
                continue
            n_other += 1
            ctx.analysed(f)
            key = (fn_key(p), ordinal)
            row = table.get(key)
            line = f.blocks[h]["s"][0][3] if f.blocks[h]["s"] and len(f.blocks[h]["s"][0]) > 3 else f.line
            if row is None:
                is_wl = any(c.bb in body and c.name().startswith("pop") for c in f.calls())
                ctx.ob("R14.5", "loop:%s#%d" % key, False,
                       ("a worklist loop on the untrusted-Sierra path pushes onto the collection it pops from on a path that marks nothing (no insert into a "
                        "visited set, no status write): an element that reaches itself is expanded forever" if is_wl else
                        "a loop on the untrusted-Sierra path is neither iterator / worklist driven nor a growing-length counter and has no recorded "
                        "termination argument"), f.where(line))
                continue
            used.add(key)
            kind, need, reason = row
            if kind == "G":
                m_ = re.match(r"^arg(\d+)>=(\d+)$", need)
                idx, K = int(m_.group(1)) - 1, int(m_.group(2))
                callers = [(F.fns[q], c) for q in sorted(reach) if F.fns[q].body for c in F.fns[q].calls() if c.path == p]
                bad = []
                for g, c in callers:
                    lb = _lower_bound_before(g, c, idx)
                    if lb is None or lb < K:
                        bad.append("%s (%s): %s" % (last_seg(g.path), c.where(), "no dominating rejection of small values" if lb is None else "only values below %d are rejected" % lb))
                ctx.ob("R14.5", "loop:%s#%d" % key, bool(callers) and not bad,
                       "terminates when argument %d >= %d (%s); every reachable caller (%d) rejects smaller values before the call" % (idx + 1, K, reason, len(callers))
                       if not bad else "the loop terminates only when argument %d >= %d (%s), but %s" % (idx + 1, K, reason, "; ".join(bad)), f.where(line))
            else:
                ctx.ob("R14.5", "loop:%s#%d" % key, kind == "I", "recorded termination argument: %s" % reason, f.where(line))
    for key in sorted(set(table) - used):
        ctx.ob("R14.5", "loop:%s#%d|stale" % key, True, "recorded loop no longer on the untrusted path (row can be removed)", LOOP_TABLE)
    ctx.floor("loops on the untrusted-Sierra path", n_loops, 100)
    ctx.notes.append("R14.5: %d loops on the untrusted path, %d not iterator / counter driven" % (n_loops, n_other))


VALIDATOR_TABLE = os.path.join(os.path.dirname(__file__), "..", "tables", "c14_validators.tsv")
VALIDATOR_NAME = re.compile(r"^(validate|check|verify|ensure|assert_valid|test_\w*consistency)(_|$)")


def _validator_calls(ctx, F, reach):
    """R14.6: the calls of validation routines on the untrusted path do not disappear.  The panic-capable sites further
    down (variant extraction, indexing, zip_eq, arithmetic) are safe only for data that earlier validation let through;
    a removed `validate_x(..)?` leaves every site it protected exposed without a single new panicking construct.  The
    multiset of (crate of the caller, validator) call sites is compared with the recorded one; moves inside a crate are
    not a loss."""
    cur = Counter()
    where = {}
    for p in reach:
        f = F.fns[p]
        if not f.body:
            continue
        for c in f.calls():
            nm = c.name()
            if not VALIDATOR_NAME.match(nm):
                continue
            g = F.fns.get(c.path)
            if g is None or not g.crate.startswith("cairo_lang"):
                continue
            rty = g.local_ty(0) or ""
            if not (rty.startswith("core::result::Result") or rty.startswith("core::option::Option") or rty == "bool"):
                continue
            key = (crate_of(fn_key(p)), "::".join(strip_generics(c.path).split("::")[-2:]))
            cur[key] += 1
            where.setdefault(key, c.where())
    if os.environ.get("VERIF_C14_WRITE_BASELINE"):
        with open(VALIDATOR_TABLE, "w") as fh:
            fh.write("# C14 R14.6: call sites of validation routines in code reachable from the untrusted-Sierra entry points\n# crate of the caller <TAB> validator <TAB> call sites\n")
            for (cr, v), n in sorted(cur.items()):
                fh.write("%s\t%s\t%d\n" % (cr, v, n))
    base = {}
    if os.path.exists(VALIDATOR_TABLE):
        for line in open(VALIDATOR_TABLE):
            if line.strip() and not line.startswith("#"):
                cr, v, n = line.rstrip("\n").split("\t")
                base[(cr, v)] = int(n)
    lost = []
    for key, n in sorted(base.items()):
        if cur.get(key, 0) < n:
            # the validator may have been renamed or moved: another validator of the same crate gained as many calls
            lost.append((key, n, cur.get(key, 0)))
    gained = sum(max(0, cur[k] - base.get(k, 0)) for k in cur)
    unexplained = 0
    for key, n, have in lost:
        explained = gained >= (n - have) and len(lost) == 1 and any(k[0] == key[0] and cur[k] > base.get(k, 0) for k in cur)
        unexplained += 0 if explained else 1
        ctx.ob("R14.6", "validator:%s|%s" % key, explained,
               "%d call(s) of %s left %s while another validator of the crate gained as many: renamed or moved" % (n - have, key[1], key[0]) if explained else
               "%s was called %d time(s) from %s on the untrusted path and is now called %d time(s): the data it rejected reaches the code behind it" % (
                   key[1], n, key[0], have), "")
    ctx.ob("R14.6", "validator-calls", not unexplained, "%d call sites of %d validation routines on the untrusted path; none disappeared%s" % (
        sum(cur.values()), len(cur), " (%d renamed or moved)" % len(lost) if lost else "") if not unexplained else "%d validator call site(s) disappeared" % unexplained, "")
    ctx.floor("validator call sites on the untrusted path", sum(cur.values()), 20)


def _fixes_length(F, f, pl, depth=0):
    """True if `f` tests the length of its slice parameter `pl` (a slice pattern: PtrMetadata compared with a constant; or
    `len()` of it - or of an iterator over it - in a comparison) on a switch one of whose edges starts a rejection, or hands
    the slice whole to a workspace routine that does."""
    from .guards import error_sink_blocks
    errs = error_sink_blocks(f)

    def rejects(bb):
        for s0 in f.succ(bb):
            seen, cur = set(), s0
            for _ in range(4):
                if cur in errs:
                    return True
                if cur in seen:
                    break
                seen.add(cur)
                nx = f.succ(cur)
                if len(nx) != 1:
                    break
                cur = nx[0]
        return False

    len_locals = set()
    for i, j, st in f.stmts():
        if st[0] == "a" and isinstance(st[1], int) and "PtrMetadata" in str(st[2][:2]):
            ops = [x for x in st[2][1:] if isinstance(x, list)]
            for o in ops:
                l = op_local(o) if o and o[0] in ("c", "m") else (o[0] if o and isinstance(o[0], int) else None)
                if l is not None and f.resolve_copy(l) == pl:
                    len_locals.add(st[1])
            if not ops and len(st[2]) > 2 and isinstance(st[2][2], int) and f.resolve_copy(st[2][2]) == pl:
                len_locals.add(st[1])
    for c in f.calls():
        if c.name() == "len" and c.args:
            l = op_local(c.args[0])
            if l is not None and (f.resolve_copy(l) == pl or ("arg:%d" % pl) in op_prov(f, c.args[0], 10)):
                d = place_local(c.dest)
                if d is not None:
                    len_locals.add(d)
    for l in len_locals:
        fl = f.flows_to(l)
        # an *equality* test of the length (a rest pattern `[a, b, ..]` compiles to `>=` and does not fix it)
        eq_locals = set()
        for i, j, st in f.stmts():
            if st[0] == "a" and isinstance(st[1], int) and st[2][0] == "bin" and st[2][1] in ("Eq", "Ne"):
                if any(op_local(o) in fl for o in (st[2][2], st[2][3]) if op_local(o) is not None):
                    eq_locals.add(st[1])
        for bb, t in f.switches():
            sl = op_local(t[1])
            if sl is not None and f.resolve_copy(sl) in eq_locals and rejects(bb):
                return True
    if depth < 2:
        for c in f.calls():
            for k, a in enumerate(c.args):
                l = op_local(a)
                if l is not None and f.resolve_copy(l) == pl and c.path in F.fns:
                    g = F.fns[c.path]
                    if k + 1 <= g.argc and _fixes_length(F, g, k + 1, depth + 1):
                        return True
    return False


def _data_arg_counts(ctx, F, reach):
    """R14.8: a `Const<T, data..>` type is accepted only with exactly the data its inner type calls for.  The stages after
    specialisation (extract_const_value, the const segment layout, const_as_immediate) walk *all* the data arguments and
    trust their number (a struct const with one argument too many gives a reference wider than its type: `ReferenceValue`
    asserts - seed C14-6).  So every routine of const_type that validates the data slice of one kind of inner type fixes the
    length of that slice: a slice pattern, a length comparison that selects a rejection, or handing the slice whole to a
    routine that does."""
    CT = "cairo_lang_sierra::extensions::modules::const_type::"
    n = 0
    for p, f in sorted(F.fns.items()):
        if not p.startswith(CT) or f.kind != "Fn" or "{closure" in p:
            continue
        if not f.local_ty(0).startswith("core::result::Result<(), cairo_lang_sierra::extensions::error::SpecializationError"):
            continue
        sl = [i for i in range(1, f.argc + 1) if f.local_ty(i).replace(" ", "") in (
            "&[cairo_lang_sierra::program::GenericArg]",)]
        if len(sl) != 1:
            continue
        n += 1
        ctx.analysed(f)
        ok = _fixes_length(F, f, sl[0])
        ctx.ob("R14.8", "data-arg-count:" + last_seg(p), ok,
               "%s fixes the number of data arguments" % last_seg(p) if ok else
               "%s walks its data arguments without fixing their number: surplus arguments of a const type are accepted, and "
               "the later stages lay out every one of them" % last_seg(p), f.where())
    ctx.floor("const data validators (R14.8)", n, 4)


REJECTION_TYPE = "cairo_lang_sierra::extensions::error::SpecializationError"
_UNWRAP = re.compile(r"^core::result::Result::<T, E>::(unwrap|expect)$")


def _unwraps_rejection(callee):
    """The callee of a call terminator is `Result<_, E>::unwrap / expect` with E the rejection type of specialisation."""
    if not isinstance(callee, dict) or not _UNWRAP.match(callee.get("path", "")):
        return False
    args = callee.get("args") or []
    return len(args) > 1 and REJECTION_TYPE in args[1]


def _rejection_unwraps(ctx, F, reach):
    """R14.9: the rejection channel of specialisation is never unwrapped.  Specialisation of a type or libfunc is the
    first thing that looks at the generic arguments of an untrusted declaration, so nothing earlier can have established
    that a `Result<_, SpecializationError>` is `Ok`: `unwrap()` / `expect()` on one turns the rejection of a malformed
    declaration into a panic (found on the unchanged tree in `dummy_function_call`, fix: 2cbb2b3).  Expected count: zero;
    the producers of the type are counted so that the rule cannot pass because the type moved."""
    n_prod = n_calls = 0
    for p in sorted(reach):
        f = F.fns[p]
        if not f.body:
            continue
        if REJECTION_TYPE in (f.local_ty(0) or ""):
            n_prod += 1
        ords = Counter()
        for c in f.calls():
            n_calls += 1
            if _unwraps_rejection(c.callee):
                ctx.analysed(f)
                nm = c.name()
                ords[nm] += 1
                ctx.ob("R14.9", "%s|%s#%d" % (fn_key(p), nm, ords[nm]), False,
                       "a Result<_, SpecializationError> is unwrapped on the untrusted-Sierra path: the rejection of a malformed "
                       "declaration becomes a panic", c.where())
    ctx.ob("R14.9", "rejection-channel", n_prod > 0,
           "%d reachable routines return Result<_, SpecializationError>; none of the %d calls on the path unwraps one" % (n_prod, n_calls), "")
    ctx.floor("routines returning the specialisation rejection type (R14.9)", n_prod, 300)
    ctx.control("unwrap of a Result<_, SpecializationError> is recognised",
                _unwraps_rejection({"path": "core::result::Result::<T, E>::unwrap", "args": ["alloc::vec::Vec<u8>", REJECTION_TYPE]})
                and not _unwraps_rejection({"path": "core::result::Result::<T, E>::unwrap", "args": ["u8", "core::num::error::ParseIntError"]}))


def _controls(ctx, F, wrappers):
    import copy
    from .lib import Fn
    # an `.ok_or(..)?` turned into `.unwrap()` shows up as a new call:unwrap site
    tsz = F.find1("cairo_lang_sierra_type_size::get_type_size_map")
    d = copy.deepcopy(tsz.d)
    n = 0
    for bl in d["body"]["blocks"]:
        t = bl["t"]
        if t[0] == "call" and t[1].get("path", "").endswith("::checked_mul") and n == 0:
            t[1]["path"] = "core::option::Option::<T>::unwrap"
            t[1].pop("via", None)
            n += 1
    m = Fn(d, tsz.crate)
    before = Counter(k for k, _ in site_kinds(tsz, wrappers))
    after = Counter(k for k, _ in site_kinds(m, wrappers))
    ctx.control("an unwrap() introduced on the untrusted path is a new site", n == 1 and sum(after.values()) == sum(before.values()) + 1)
    # integer Iterator::sum is a panic-capable site
    d2 = copy.deepcopy(tsz.d)
    for bl in d2["body"]["blocks"]:
        t = bl["t"]
        if t[0] == "call" and t[1].get("path", "").endswith("::checked_mul"):
            t[1]["path"] = "core::iter::traits::iterator::Iterator::sum"
            t[1].pop("via", None)
            d2["body"]["locals"][t[3] if isinstance(t[3], int) else t[3][0]][0] = "i16"
            break
    m2 = Fn(d2, tsz.crate)
    after2 = Counter(k for k, _ in site_kinds(m2, wrappers))
    ctx.control("integer Iterator::sum is a panic-capable site", any("Iterator::sum" in k for k in after2))


DIV_NAMES = {"div", "rem", "div_rem", "div_floor", "mod_floor", "div_mod_floor", "div_euclid", "rem_euclid", "div_assign", "rem_assign"}
RELATIONAL = {"ge", "gt", "le", "lt", "eq", "ne", "cmp", "partial_cmp", "is_zero", "is_positive", "is_negative", "is_one", "max", "min"}


THROUGH = {"add", "sub", "mul", "neg", "shl", "shr", "clone", "deref", "borrow", "as_ref", "into", "from", "to_owned", "max", "min", "one", "zero",
           "abs", "pow", "to_bigint", "magnitude", "unwrap", "expect", "branch", "from_residual", "ok_or", "ok_or_else", "map_err"}


def _access_paths(f, op, limit=300):
    """(variable, field) pairs, constants and call names a value is computed from (copies, re-borrows, projections,
    non-`&mut` call arguments)."""
    from .lib import rvalue_operands, place_proj, op_place
    paths, consts, names, todo, seen = set(), set(), set(), [op], set()
    while todo and len(seen) < limit:
        o = todo.pop()
        k = op_const(o)
        if k is not None:
            if k[0] == "int":
                consts.add(k[1])
            continue
        pl = op_place(o)
        if pl is None:
            continue
        l = place_local(pl)
        # (tuple components - e.g. the (value, overflowed) pair of a checked operation - are not fields of anything)
        flds = [str(e[2]) for e in place_proj(pl) if isinstance(e, list) and e[0] == "f" and e[2] is not None and not str(e[2]).isdigit()]
        if flds:
            paths.add((f.local_name(l) or "_%d" % l, flds[-1]))
        if l in seen:
            continue
        seen.add(l)
        if 1 <= l <= f.argc and not flds:
            paths.add((f.local_name(l) or "_%d" % l, ""))
        for d in f.defs().get(l, []):
            if d[0] == "stmt":
                rv = d[3]
                if rv[0] == "ref":
                    todo.append(["c", rv[1]])
                else:
                    todo.extend(rvalue_operands(rv))
            elif d[0] == "call":
                c = d[2]
                names.add(c.name())
                if c.name() not in THROUGH:
                    if not any(op_place(a) is not None for a in c.args):
                        continue          # a nullary function (`Felt252::prime()`): a constant
                    # the result of any other call is a value of its own (named after the variable that holds it)
                    if f.local_name(l):
                        paths.add((f.local_name(l), ""))
                    continue
                for a in c.args:
                    la = op_local(a)
                    if la is not None and (f.local_ty(la) or "").startswith("&mut"):
                        continue
                    todo.append(a)
    return paths, consts, names


def _divisions(ctx, F, reach):
    """R14.7: on the untrusted path, the divisor of an arbitrary-precision division is a constant, is bounded away from
    zero by construction (`max(x, 1)`), or is computed from a value that a dominating relational test has looked at."""
    n = 0
    for p in sorted(reach):
        f = F.fns[p]
        if not f.body:
            continue
        k_ = 0
        for c in f.calls():
            if c.name() not in DIV_NAMES or len(c.args) < 2:
                continue
            tys = [(f.local_ty(op_local(a)) or "") if op_local(a) is not None else "" for a in c.args[:2]]
            if not any("BigInt" in t or "BigUint" in t for t in tys) and "num_bigint" not in c.path and "num_integer" not in c.path:
                continue
            paths, consts, names = _access_paths(f, c.args[1])
            # a value captured by a closure is computed in the enclosing function
            root = F.fns.get(f.root) if f.kind == "Closure" else None
            if root is not None and root.body:
                for (v_, fld_) in list(paths):
                    if v_ == "_1" and fld_:
                        nm_ = fld_[len("_ref__"):] if fld_.startswith("_ref__") else fld_
                        ls_ = [l for l in range(len(root.d["body"]["locals"])) if root.local_name(l) == nm_]
                        if len(ls_) == 1:
                            p2, c2, n2 = _access_paths(root, ["c", ls_[0]])
                            paths.discard((v_, fld_))
                            paths |= p2
                            consts |= c2
                            names |= n2
            n += 1
            k_ += 1
            key = "%s|%s#%d" % (fn_key(p), c.name(), k_)
            if not paths or ("max" in names and any(v >= 1 for v in consts)) or "prime" in names and not paths:
                ctx.ob("R14.7", key, True, "the divisor is a constant or bounded away from zero by construction", c.where())
                continue
            tested = set()
            for g in f.calls():
                if g.name() in RELATIONAL and g.bb != c.bb and f.dominates(g.bb, c.bb):
                    for a in g.args:
                        tested |= _access_paths(f, a)[0]
            ok = bool(paths & tested)
            ctx.ob("R14.7", key, ok,
                   "the divisor is computed from %s, which a dominating test has looked at" % sorted(paths & tested)[:2] if ok else
                   "the divisor is computed from %s and no relational test of that value dominates the division: a zero divisor panics" % sorted(paths)[:3], c.where())
    ctx.floor("arbitrary-precision divisions on the untrusted path", n, 4)
