"""C12 - compilation is deterministic (clauses: no order-revealing iteration over hash containers;
no ordering derived from schedule-dependent ids outside an enumerated set; warm-up returns nothing;
no ambient inputs reachable from tracked queries)."""
import json
import os
import re
import subprocess
from collections import Counter, defaultdict

from .guards import op_prov
from .lib import fn_key, CallGraph, op_local, place_local, strip_generics, last_seg, AnchorError

EXPLANATION = (
    "Decides the structural clause of C12: (R12.1) every place where workspace code can observe the iteration "
    "order of a std/hashbrown hash container (order-revealing methods, the container passed to a generic "
    "consumer, serde serialisation) is in the reasoned table tables/c12_hash_iter.tsv - a new one is a "
    "violation; serde_json must not be built with preserve_order (its maps are then sorted); (R12.2) the "
    "Unordered* wrappers expose iteration only through sorted* adapters or order-insensitive results; (R12.3) no "
    "salsa id type or Sierra id type implements Ord/PartialOrd, and the functions that compare or order by "
    "unstable interned ids (get_internal_id / as_intern_id / salsa::Id comparisons) are exactly the enumerated "
    "set tables/c12_id_order.tsv; (R12.4) the parallel warm-up functions return () and ensure_diagnostics returns "
    "the sequential ensure result; (R12.5) no function reachable from a salsa tracked function reads the "
    "environment, the clock, a random source or thread/process ids. That the remaining order sources are "
    "deterministic functions of the sources is not decided.")
ASSUMPTIONS = ["OrderedHashMap/OrderedHashSet (indexmap) iterate in insertion order",
               "table rows of class T are enumerated but their justification is pending triage"]
EXHAUSTIVE = True
TABLES = os.path.join(os.path.dirname(__file__), "..", "tables")

HASH = re.compile(r"(std::collections::hash::(map::HashMap|set::HashSet)|hashbrown::(map::HashMap|set::HashSet))")
HASH_TY = re.compile(r"^(&(mut )?)?('\w+ )?(std::collections::hash::(map::HashMap|set::HashSet)|hashbrown::(map::HashMap|set::HashSet))<")
REVEAL = {"iter", "iter_mut", "into_iter", "keys", "values", "values_mut", "into_keys", "into_values", "drain",
          "retain", "extract_if", "fmt", "for_each", "par_iter", "into_par_iter"}
SAFE_CONSUMERS = {"len", "is_empty", "get", "get_mut", "contains_key", "contains", "insert", "remove", "entry",
                  "clone", "eq", "ne", "default", "with_capacity", "reserve", "drop", "deref", "deref_mut", "clear",
                  "borrow", "borrow_mut", "as_ref", "as_mut", "new", "from", "into", "unwrap", "expect", "branch",
                  "from_residual", "get_or_insert_with", "heap_size", "clone_from", "take", "replace", "swap", "extend",
                  "is_subset", "is_superset", "is_disjoint", "get_key_value", "shrink_to_fit", "capacity"}
WRAPPERS = ("cairo_lang_utils::unordered_hash_map::", "cairo_lang_utils::unordered_hash_set::")
AMBIENT = re.compile(r"^(std::env::(var|vars|var_os|vars_os|args|args_os|current_dir|temp_dir)|std::time::(Instant|SystemTime)::now|"
                     r"std::thread::current|std::process::id|rand::|fastrand::|getrandom::|std::collections::hash::map::RandomState::new)")


def load_table(name):
    rows = {}
    p = os.path.join(TABLES, name)
    if os.path.exists(p):
        for line in open(p):
            if line.strip() and not line.startswith("#"):
                parts = line.rstrip("\n").split("\t")
                rows[parts[0]] = (parts[1] if len(parts) > 1 else "", parts[2] if len(parts) > 2 else "")
    return rows


def hash_sites(F):
    """(key, kind, fn, call) for every observation point of hash-container order."""
    out = []
    for p, f in F.fns.items():
        if not f.body:
            continue
        ords = Counter()
        for c in f.calls():
            cp = c.path
            kind = None
            if c.name() in REVEAL and HASH.search(cp):
                kind = "iterate:%s" % c.name()
            elif "serde" in cp.split("::")[0] and c.name() in ("serialize_field", "serialize", "to_value", "to_string", "to_vec",
                                                              "to_writer", "serialize_entry", "serialize_element", "collect_map", "collect_seq") \
                    and any(HASH_TY.match(g) for g in c.gargs):
                kind = "serialize:%s" % c.name()
            elif not HASH.search(cp) and c.name() not in SAFE_CONSUMERS:
                for a in c.args:
                    l = op_local(a)
                    if l is not None and HASH_TY.match(f.local_ty(l)):
                        if "serde" in cp.split("::")[0] and c.name() not in ("serialize_field", "to_value"):
                            continue
                        kind = "passed-to:%s" % last_seg(c.via if "via" in c.callee else cp)
                        break
            if kind is None:
                continue
            ords[kind] += 1
            key = "%s|%s#%d" % (fn_key(p), kind, ords[kind])
            out.append((key, kind, f, c))
    return out


def run(ctx):
    F = ctx.load(None)
    ctx.floor("workspace functions", len(F.fns), 30000)
    for f in F.fns.values():
        ctx.analysed(f)

    # ---------------- R12.1
    table = load_table("c12_hash_iter.tsv")
    used = set()
    sites = hash_sites(F)
    n_sites = 0
    wrapper_sites = []
    for key, kind, f, c in sorted(sites, key=lambda x: x[0]):
        if f.path.startswith(WRAPPERS) or (f.d.get("self_ty", "").startswith(WRAPPERS)) or any(
                w in f.path for w in WRAPPERS):
            wrapper_sites.append((key, kind, f, c))
            continue
        n_sites += 1
        row = table.get(key)
        if row:
            used.add(key)
            ctx.ob("R12.1", key, row[0] != "F", "hash-order observation point, class %s: %s" % (row[0], row[1]), c.where())
        else:
            ctx.ob("R12.1", key, False,
                   "iteration order of a hash container is observable here (%s on %s) and the site is not in the reasoned table" % (
                       kind, strip_generics(c.path)[-60:]), c.where())
    for k in sorted(set(table) - used):
        ctx.ob("R12.1", "stale:" + k, False, "table row no longer matches a site", "tables/c12_hash_iter.tsv")
    ctx.floor("hash-order observation points outside the wrappers", n_sites, 8)
    # serde_json map order
    feats = serde_json_features(ctx.repo)
    ctx.ob("R12.1", "serde_json:no-preserve_order", feats is not None and "preserve_order" not in feats,
           "serde_json features %s: Value::Object is a sorted BTreeMap" % sorted(feats or []), "Cargo.lock")

    # ---------------- R12.2 wrapper API
    n_wr = 0
    by_fn = defaultdict(list)
    for key, kind, f, c in wrapper_sites:
        by_fn[f.root].append((key, kind, f, c))
    for root, lst in sorted(by_fn.items()):
        fn = F.fns.get(root)
        if fn is None:
            continue
        n_wr += 1
        ret = fn.local_ty(0)
        names = set(c.name() for g in F.with_closures(fn) for c in g.calls())
        is_pub = fn.d.get("vis") == "pub" or fn.d.get("trait") is not None
        sorted_ = any(n.startswith("sorted") or n.startswith("sort") for n in names)
        insensitive = bool(re.match(r"^(cairo_lang_utils::unordered_hash_(map::UnorderedHashMap|set::UnorderedHashSet)<|bool$|usize$|\(\)$|core::option::Option<cairo_lang_utils::unordered)", ret)) \
            or ret.startswith("core::result::Result<(), core::fmt::Error") or last_seg(root) in ("eq", "ne", "heap_size", "hash")
        ok = sorted_ or insensitive or not is_pub
        ctx.ob("R12.2", fn_key(root), ok,
               "wrapper function iterates the inner container; result `%s` is %s" % (
                   ret[:80], "sorted" if sorted_ else "order-insensitive" if insensitive else "private" if not is_pub else "ORDER-REVEALING"),
               fn.where())
    ctx.floor("wrapper functions iterating the inner container", n_wr, 8)

    # ---------------- R12.3 id order
    id_adts = set(p for p, a in F.adts.items() if a["kind"] == "struct" and any(
        t.startswith("salsa::id::Id") for _, t in a["variants"][0]["fields"]))
    id_adts |= {"cairo_lang_sierra::ids::ConcreteTypeId", "cairo_lang_sierra::ids::ConcreteLibfuncId",
                "cairo_lang_sierra::ids::FunctionId"}
    ctx.floor("schedule-dependent id types", len(id_adts), 100)
    n_ord = 0
    for i in F.impls:
        if i.get("trait") in ("core::cmp::Ord", "core::cmp::PartialOrd") and i.get("self_adt") in id_adts:
            n_ord += 1
            ctx.ob("R12.3", "ord-impl:" + i["self_adt"], False, "schedule-dependent id type implements %s" % i["trait"],
                   "%s:%s" % (i["file"], i["line"]))
    ctx.ob("R12.3", "no-ord-on-id-types", n_ord == 0, "%d id types, none implements Ord/PartialOrd" % len(id_adts), "")
    idt = load_table("c12_id_order.tsv")
    used = set()
    n_idf = 0
    for p, f in sorted(F.fns.items()):
        if not f.body:
            continue
        nm = last_seg(p)
        if nm in ("fmt", "get_internal_id", "as_intern_id", "as_id", "default_debug_fmt") or "default_debug_fmt" in p:
            continue
        ns = Counter()
        for c in f.calls():
            n = c.name()
            if n in ("get_internal_id", "as_intern_id") or (n == "as_bits" and "salsa::id::Id" in c.path):
                ns[n] += 1
            elif n in ("cmp", "partial_cmp", "lt", "le", "gt", "ge", "max", "min") and "salsa::id::Id" in c.path:
                ns["Id::" + n] += 1
        if not ns:
            continue
        n_idf += 1
        key = fn_key(p)
        row = idt.get(key)
        if row:
            used.add(key)
            ctx.ob("R12.3", "id-order:" + key, row[0] != "F", "uses %s; class %s: %s" % (dict(ns), row[0], row[1]), f.where())
        else:
            ctx.ob("R12.3", "id-order:" + key, False,
                   "function exposes or compares schedule-dependent interned ids (%s) and is not in the enumerated set" % dict(ns), f.where())
    for k in sorted(set(idt) - used):
        ctx.ob("R12.3", "stale:" + k, False, "table row no longer matches a function", "tables/c12_id_order.tsv")
    ctx.floor("functions using unstable ids", n_idf, 4)

    # R12.3b: the raw number of a Sierra id (built from interned-id bits) is read only in an enumerated set
    SIDS = {"cairo_lang_sierra::ids::ConcreteTypeId", "cairo_lang_sierra::ids::ConcreteLibfuncId", "cairo_lang_sierra::ids::FunctionId"}
    rd = load_table("c12_sierra_id_readers.tsv")
    used = set()
    readers = {}
    from .lib import rvalue_places, place_proj
    for p, f in F.fns.items():
        if not f.body:
            continue
        for _, _, st in f.stmts():
            if st[0] != "a":
                continue
            for pl in rvalue_places(st[2]):
                for e in place_proj(pl):
                    if isinstance(e, list) and e[0] == "f" and e[2] == "id" and e[3] in SIDS and f.is_used(place_local(st[1])):
                        readers.setdefault(fn_key(f.root if f.kind == "Closure" else p), f)
    write = os.environ.get("VERIF_C12_WRITE_BASELINE")
    if write:
        with open(os.path.join(TABLES, "c12_sierra_id_readers.tsv"), "w") as fh:
            fh.write("# C12 R12.3b: functions (closures folded into their parent) that read the raw number of a Sierra id. key <TAB> class <TAB> reason\n"
                     "# classes: E identity (eq/hash/clone); P printing / serialisation of the id itself; H handle round trip or lookup key; R renumbering\n")
            for k in sorted(readers):
                cls, why = _classify_id_reader(k)
                old_row = rd.get(k)
                if old_row:
                    cls, why = old_row
                fh.write("%s\t%s\t%s\n" % (k, cls, why))
        rd = load_table("c12_sierra_id_readers.tsv")
    for k, f in sorted(readers.items()):
        row = rd.get(k)
        if row:
            used.add(k)
            ctx.ob("R12.3", "sierra-id-number:" + k, row[0] != "?", "reads the raw id number; class %s: %s" % row, f.where())
        else:
            ctx.ob("R12.3", "sierra-id-number:" + k, False,
                   "reads the schedule-dependent number of a Sierra id (ids are built from interned-id bits) and is not in the enumerated set", f.where())
    for k in sorted(set(rd) - used):
        ctx.ob("R12.3", "stale:" + k, False, "table row no longer matches a function", "tables/c12_sierra_id_readers.tsv")
    ctx.floor("functions reading Sierra id numbers", len(readers), 20)

    # ---------------- R12.4 warm-up
    COMP = "cairo_lang_compiler::"
    for nm in ("warmup_diagnostics_blocking", "warmup_module_discovery_blocking", "warmup_functions_blocking"):
        fn = F.find1(COMP, name=nm, kind="Fn")
        ctx.ob("R12.4", nm + ":returns-unit", fn.local_ty(0) == "()", "warm-up returns `%s`" % fn.local_ty(0), fn.where())
        # state written by its closures: only the membership set
        for g in F.with_closures(fn):
            for c in g.calls():
                if c.name() in ("lock",):
                    toks = op_prov(g, c.args[0], 8)
        ctx.analysed(fn)
    ed = F.find1(COMP, name="ensure_diagnostics", kind="Fn")
    joins = [c for c in ed.calls() if c.path.startswith("rayon_core::join") or c.name() == "join"]
    ok = False
    msg = "rayon::join not found"
    if len(joins) == 1:
        dl = place_local(joins[0].dest)
        # the value returned on the warm-up path is field .1 of the join result
        ok = False
        for _, _, st in ed.stmts():
            if st[0] == "a" and place_local(st[1]) == 0 and st[2][0] == "use":
                pl = st[2][1][1] if st[2][1][0] in ("c", "m") else None
                if pl is not None and not isinstance(pl, int) and place_local(pl) == dl:
                    fields = [e[1] for e in pl[1] if isinstance(e, list) and e[0] == "f"]
                    ok = fields == [1]
        cl = [g for g in F.closures_of(ed)]
        second = [g for g in cl if any(c.name() == "ensure" for c in g.calls())]
        first = [g for g in cl if any(c.name() == "warmup_diagnostics_blocking" for c in g.calls())]
        ok = ok and len(second) == 1 and len(first) == 1 and second[0].path > first[0].path
        msg = "ensure_diagnostics returns component .1 of rayon::join(warm-up, ensure): %s" % ok
    ctx.ob("R12.4", "ensure_diagnostics:returns-sequential-result", ok, msg, ed.where())

    # ---------------- R12.5 ambient inputs
    cg = CallGraph(F)
    roots = [p for p in F.fns if p.endswith("as salsa::function::Configuration>::execute::inner_")]
    ctx.floor("salsa tracked functions", len(roots), 200)
    reach = cg.reachable(roots)
    amb = load_table("c12_ambient.tsv")
    used = set()
    n_amb = 0
    for p in sorted(reach):
        f = F.fns[p]
        for c in f.calls():
            sp = strip_generics(c.path)
            if AMBIENT.match(sp):
                n_amb += 1
                key = "%s|%s" % (fn_key(p), sp)
                row = amb.get(key)
                if row:
                    used.add(key)
                    ctx.ob("R12.5", key, True, "ambient read, class %s: %s" % row, c.where())
                else:
                    wit = " <- ".join(last_seg(x) for x in CallGraph.witness(reach, p)[-4:])
                    ctx.ob("R12.5", key, False, "ambient input %s is read in a function reachable from a tracked query (%s)" % (sp, wit), c.where())
    ctx.ob("R12.5", "ambient-reads", True, "%d ambient reads reachable from %d tracked functions (%d functions reachable)" % (
        n_amb, len(roots), len(reach)), "")
    for k in sorted(set(amb) - used):
        ctx.ob("R12.5", "stale:" + k, False, "table row no longer matches", "tables/c12_ambient.tsv")
    _parallel_bodies(ctx, F)
    _named_ids(ctx, F)
    _controls(ctx, F)


def _always_some(F, f, op, depth=0, seen=None):
    """True when operand `op` of `f` is `Option::Some(..)` on every path: every definition of the local is a `Some`
    aggregate, a move / copy of such a local, or the result of a workspace function all of whose returned values are."""
    seen = seen if seen is not None else set()
    l = op_local(op)
    if l is None or (f.path, l) in seen:
        return False
    seen.add((f.path, l))
    ds = f.defs().get(l, [])
    if not ds:
        return False
    for d in ds:
        if d[0] == "stmt":
            rv = d[3]
            if rv[0] == "agg" and rv[1] == "adt" and rv[2] == "core::option::Option":
                if rv[4] != "Some":
                    return False
            elif rv[0] == "use":
                if not _always_some(F, f, rv[1], depth, seen):
                    return False
            else:
                return False
        elif d[0] == "call":
            g = F.fns.get(d[2].path)
            if g is None or not g.body or depth >= 2:
                return False
            if not _always_some(F, g, ["m", 0], depth + 1, seen):
                return False
        else:
            return False
    return True


def _named_ids(ctx, F):
    """R12.7: an id that the debug-name replacer hands out carries a name on every path.  `Display` of a Sierra id prints
    the debug name when there is one and the *number* otherwise; the number is the salsa intern id, assigned in
    first-come order, so a nameless id in debug-name output makes the text depend on the query history (seed C12-6: names
    longer than a cap were dropped).  Decided on the id aggregates (`.. { id, debug_name }`) built in the impl of the
    Sierra generator that keep the number of an id they were given (`id: id.id` - the canonical replacer numbers its ids
    afresh and is not concerned): the `debug_name` operand is `Some(..)` on every path
    (through moves and through workspace helpers all of whose returns are `Some`)."""
    n = 0
    for p in sorted(F.fns):
        f = F.fns[p]
        if not f.body or f.d.get("derived") or "cairo_lang_sierra_generator::" not in p:
            continue
        for i, j, st in f.stmts():
            if st[0] != "a" or st[2][0] != "agg" or st[2][1] != "adt" or not st[2][2].startswith("cairo_lang_sierra::ids::"):
                continue
            fields = st[2][5] or []
            if "debug_name" not in fields:
                continue
            # the ids in question keep the number of an id the routine was given (`id: id.id`): the intern number
            prov = op_prov(f, st[2][3][fields.index("id")], 12) if "id" in fields else set()
            if "f:id" not in prov or not any(x.startswith("arg:") for x in prov):
                continue
            n += 1
            ctx.analysed(f)
            op = st[2][3][fields.index("debug_name")]
            ok = _always_some(F, f, op)
            ctx.ob("R12.7", "named-id:%s:%s" % (fn_key(p).split("::")[-1], last_seg(st[2][2])), ok,
                   "the id built for debug-name output carries `Some(name)` on every path" if ok else
                   "the id built for debug-name output may carry no name: a nameless id prints as its salsa intern number, "
                   "which depends on what was interned before (query history, schedule)", f.where(st[3] if len(st) > 3 else f.line))
    ctx.floor("ids built by the debug-name replacer (R12.7)", n, 2)


def _classify_id_reader(k):
    if " as core::cmp::PartialEq>::eq" in k or " as core::hash::Hash>::hash" in k or " as core::clone::Clone>::clone" in k:
        return "E", "identity of the id (equality / hash / copy), order-insensitive"
    if "core::fmt::" in k or "::fmt::fmt" in k or "::serialize" in k or "Felt252Serde" in k:
        return "P", "prints or serialises the id itself; canonical programs are renumbered first, debug-name programs print names"
    if "lookup_" in k or "get_type_info" in k or "get_libfunc_signature" in k or "IdAsHashKey" in k or "DebugInfo::extract" in k:
        return "H", "round trip of the handle back to the interned value, or use as a hash-map key"
    if "replace_" in k or "Replacer" in k or "type_names" in k or "function_debug_info" in k:
        return "R", "id replacement / debug info keyed by id: maps each id consistently, no ordering"
    if "get_entry_points" in k:
        return "H", "looks up the function index of an entry point by id equality"
    if "TypeResolver::get_long_id" in k:
        return "H", "indexes the declaration table by the (canonical, positional) id"
    return "?", ""


def serde_json_features(repo):
    try:
        out = subprocess.run(["cargo", "metadata", "--offline", "--format-version", "1"], cwd=repo, capture_output=True,
                             env=dict(os.environ, CARGO_NET_OFFLINE="true")).stdout
        meta = json.loads(out)
        feats = set()
        for n in meta["resolve"]["nodes"]:
            if n["id"].split("#")[-1].startswith("serde_json@") or "/serde_json-" in n["id"] or "serde_json " in n["id"]:
                feats.update(n.get("features", []))
        return feats
    except Exception:
        return None


PAR_CONSUMER = re.compile(r"^(rayon::iter::(ParallelIterator|IndexedParallelIterator|ParallelExtend)::|"
                          r"rayon_core::(join::join|spawn::spawn|scope::|broadcast::))")
SHARED_WRITE = re.compile(r"(sync::(poison::)?(mutex::)?Mutex|sync::(poison::)?(rwlock::)?RwLock|cell::RefCell|cell::Cell|sync::mpsc|"
                          r"sync::atomic|parking_lot|crossbeam|dashmap|once_cell|OnceLock|OnceCell)")
SHARED_WRITE_NAMES = {"lock", "try_lock", "write", "try_write", "borrow_mut", "get_mut", "send", "try_send", "replace", "swap",
                      "fetch_add", "fetch_sub", "compare_exchange", "compare_exchange_weak", "fetch_update"}
# what a lock protects decides whether the order of the writes can be observed: a sorted or hashed set / map cannot record it
# (iteration over the hashed ones is R12.1's business), a sequence, an insertion-ordered map or a plain value can
ORDER_FREE_PAYLOAD = re.compile(r"(Mutex|RwLock|RefCell)<(std::collections::|alloc::collections::btree::|hashbrown::|"
                                r"cairo_lang_utils::unordered_hash_(map|set)::)?(HashSet|HashMap|BTreeSet|BTreeMap|UnorderedHashSet|UnorderedHashMap)<")
# parallel regions whose shared writes do not reach a compilation artefact: root function -> reason
PAR_EXEMPT = {
    "cairo_lang_test_runner::run_tests": "the test runner executes already compiled tests and reports outcomes through a channel; "
                                         "no compilation artefact is produced in this region",
}


def _parallel_bodies(ctx, F):
    """R12.6: the only way a value leaves the body of a parallel consumer is its return value.  rayon's collectors (collect,
    map, flatten, ... on indexed iterators) put the returned values back in the order of the input; anything a body writes into
    shared state - under a lock, through a RefCell / atomic / channel - arrives in completion order, i.e. depends on the number
    of worker threads and on the schedule (seed C12-5: contract classes pushed into a Mutex<Vec> from try_for_each).  So a
    closure handed to a rayon consumer / join / spawn / scope, and the closures nested in it, contain no call of a writing
    method of a shared-state primitive: taking a lock / a mutable borrow whose payload can record an order (anything but a
    hashed or sorted set / map), a channel send, or an atomic read-modify-write that returns the previous value (a counter
    handing out numbers).  Flag-like atomics (store, fetch_or / and / max / min) and once-cells are not counted.  (Memoised salsa queries are the sanctioned shared state: they are functions of their
    keys - clause (c).)  Regions outside compilation are exempted by name with a reason."""
    import re as _re
    n = 0
    for f in list(F.fns.values()):
        for c in f.calls():
            if not PAR_CONSUMER.match(c.path):
                continue
            for a in c.args:
                l = op_local(a)
                if l is None or "{closure@" not in f.local_ty(l) or f.local_ty(l).startswith(("rayon::", "core::iter")):
                    continue
                m = _re.search(r"\{closure@([^:]+):(\d+):", f.local_ty(l))
                rootp = f.root if f.kind == "Closure" else f.path
                rootfn = F.fns.get(rootp)
                g = None
                for h in (F.closures_of(rootfn) if rootfn else []):
                    if m and h.file == m.group(1) and str(h.line) == m.group(2):
                        g = h
                        break
                key = "%s|%s" % (fn_key(f.path), last_seg(c.path))
                if g is None:
                    ctx.ob("R12.6", "parallel-body:" + key, False, "cannot resolve the closure handed to %s" % last_seg(c.path), c.where())
                    continue
                n += 1
                ctx.analysed(g)
                body = [g] + [h for h in F.fns.values() if h.path.startswith(g.path + "::{closure")]
                hits = []
                for h in body:
                    for x in h.calls():
                        if x.name() in SHARED_WRITE_NAMES and SHARED_WRITE.search(x.path + " " + x.via):
                            rl = op_local(x.args[0]) if x.args else None
                            rty = h.local_ty(rl) if rl is not None else ""
                            if ORDER_FREE_PAYLOAD.search(rty):
                                continue
                            hits.append((h, x))
                ok = not hits
                msg = "the body handed to %s writes no shared state" % last_seg(c.path)
                if hits:
                    msg = "; ".join("%s calls %s (%s)" % (fn_key(h.path), strip_generics(x.path)[-60:], x.where()) for h, x in hits[:3]) + \
                          ": values written into shared state from a parallel body arrive in completion order"
                    if rootp in PAR_EXEMPT:
                        ok = True
                        msg += " [exempt: %s]" % PAR_EXEMPT[rootp]
                ctx.ob("R12.6", "parallel-body:" + key + ":" + fn_key(g.path).split("::")[-1], ok, msg, hits[0][1].where() if hits else g.where())
    ctx.floor("parallel bodies analysed (R12.6)", n, 15)


def _controls(ctx, F):
    import copy
    from .lib import Fn
    # a std HashMap iterated in a compile-path function must be reported: emulate on ProgramRegistry::new
    fn = F.find1("cairo_lang_sierra::program_registry::ProgramRegistry", name="validate")
    d = copy.deepcopy(fn.d)
    d["path"] = d["path"].replace("validate", "validate_control")
    m = Fn(d, fn.crate)
    F2 = type("X", (), {})()
    F2.fns = {m.path: m}
    keys = [k for k, _, _, _ in hash_sites(F2)]
    ctx.control("HashMap::values() in a new function is an unlisted site", any("validate_control|iterate:values" in k for k in keys))
