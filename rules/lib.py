"""Analysis library over the cairo-facts fact base (python3 stdlib only).

Fact shapes (see engine/src/main.rs):
  fn    {"k":"fn","path","kind","file","line","expn","vis","root","derived","self_ty","trait",
         "self_adt","name","argc","body":{"locals":[[ty,name?]],"blocks":[{"s":[stmt],"t":term}]},
         "promoted":[body]}
  stmt  ["a", place, rvalue, line] | ["sd", place, variant, line]
  place local | [local, [elem...]]   elem: "*" | ["f",idx,name,adt] | ["i",local] | ["d",name,idx] ...
  op    ["c"|"m", place] | ["k", tag, ...]
  term  ["goto",bb] | ["switch",op,[[v,bb]..],otherwise,line] | ["ret"] | ["unreachable"]
        | ["call", callee, [ops], dest, target|null, line, macros|null, diverges]
        | ["assert", cond, expected, kind, [ops], target, line, macros] | ["drop", place, bb]
"""
import glob
import json
import os
import re
from collections import defaultdict, deque


# ----------------------------------------------------------------------------------------
# places / operands

def place_local(p):
    return p if isinstance(p, int) else p[0]


def place_proj(p):
    return [] if isinstance(p, int) else p[1]


def place_fields(p):
    """Names of the field projections of a place, in order."""
    return [e[2] for e in place_proj(p) if isinstance(e, list) and e[0] == "f"]


def op_place(op):
    return op[1] if op and op[0] in ("c", "m") else None


def op_local(op):
    p = op_place(op)
    return None if p is None else place_local(p)


def op_const(op):
    """(tag, value) of a constant operand, else None."""
    if op and op[0] == "k":
        return (op[1], op[2] if len(op) > 2 else None)
    return None


def place_locals(p):
    """All locals mentioned by a place (base and index locals)."""
    if isinstance(p, int):
        return [p]
    r = [p[0]]
    for e in p[1]:
        if isinstance(e, list) and e[0] == "i":
            r.append(e[1])
    return r


def rvalue_operands(rv):
    k = rv[0]
    if k == "use":
        return [rv[1]]
    if k == "repeat":
        return [rv[1]]
    if k == "cast":
        return [rv[2]]
    if k == "bin":
        return [rv[2], rv[3]]
    if k == "un":
        return [rv[2]]
    if k == "agg":
        return rv[3]
    return []


def rvalue_places(rv):
    """Places read by an rvalue (through operands, refs and discriminant reads)."""
    k = rv[0]
    if k in ("ref", "disc"):
        return [rv[1]]
    return [op_place(o) for o in rvalue_operands(rv) if op_place(o) is not None]


# ----------------------------------------------------------------------------------------

class Call:
    __slots__ = ("fn", "bb", "callee", "args", "dest", "target", "line", "macros", "diverges")

    def __init__(self, fn, bb, t):
        self.fn = fn
        self.bb = bb
        self.callee = t[1]
        self.args = t[2]
        self.dest = t[3]
        self.target = t[4]
        self.line = t[5]
        self.macros = t[6] or []
        self.diverges = t[7]

    @property
    def path(self):
        return self.callee.get("path", "")

    @property
    def via(self):
        return self.callee.get("via", self.callee.get("path", ""))

    @property
    def gargs(self):
        return self.callee.get("args", [])

    def name(self):
        return last_seg(self.path)

    def is_method(self, trait_or_type_suffix, method):
        p = self.path
        return p.endswith("::" + method) and trait_or_type_suffix in p

    def where(self):
        return "%s:%s" % (self.fn.file, self.line)

    def __repr__(self):
        return "Call(%s @%s bb%d)" % (self.path, self.where(), self.bb)


def last_seg(path):
    """Last path segment with generic arguments stripped."""
    return strip_generics(path).rsplit("::", 1)[-1]


def strip_generics(s):
    out = []
    depth = 0
    for ch in s:
        if ch == "<":
            depth += 1
        elif ch == ">":
            depth -= 1
        elif depth == 0:
            out.append(ch)
    return "".join(out).replace("::::", "::")


def fn_key(path):
    """Stable, line-free name of a function for table keys: generic arguments are stripped but the
    `<Type as Trait>` qualification of trait-impl methods is kept."""
    if path.startswith("<"):
        depth = 0
        for i, ch in enumerate(path):
            if ch == "<":
                depth += 1
            elif ch == ">":
                depth -= 1
                if depth == 0:
                    inner, rest = path[1:i], path[i + 1:]
                    return "<" + strip_generics(inner).replace("'_ ", "") + ">" + strip_generics(rest)
    return strip_generics(path)


class Fn:
    def __init__(self, d, crate):
        self.d = d
        self.crate = crate
        self.path = d["path"]
        self.kind = d["kind"]
        self.file = d["file"]
        self.line = d["line"]
        self.body = d.get("body")
        self.blocks = self.body["blocks"] if self.body else []
        self.locals = self.body["locals"] if self.body else []
        self.argc = d.get("argc", 0)
        self._succ = None
        self._pred = None
        self._idom = None
        self._ipdom = None
        self._calls = None
        self._defs = None

    # -- metadata
    @property
    def root(self):
        return self.d.get("root", self.path)

    @property
    def name(self):
        return self.d.get("name") or last_seg(self.path)

    def local_ty(self, l):
        return self.locals[l][0]

    def local_name(self, l):
        e = self.locals[l]
        return e[1] if len(e) > 1 else None

    def where(self, line=None):
        return "%s:%s" % (self.file, line if line is not None else self.line)

    # -- CFG (unwind/cleanup edges are not in the facts; cleanup blocks are unreachable here)
    def succ(self, bb):
        if self._succ is None:
            self._build_cfg()
        return self._succ[bb]

    def pred(self, bb):
        if self._pred is None:
            self._build_cfg()
        return self._pred[bb]

    def _build_cfg(self):
        n = len(self.blocks)
        succ = [[] for _ in range(n)]
        for i, b in enumerate(self.blocks):
            t = b["t"]
            k = t[0]
            if k == "goto":
                succ[i] = [t[1]]
            elif k == "switch":
                s = [x[1] for x in t[2]] + [t[3]]
                seen = []
                for x in s:
                    if x not in seen:
                        seen.append(x)
                succ[i] = seen
            elif k == "call":
                succ[i] = [t[4]] if t[4] is not None else []
            elif k == "assert":
                succ[i] = [t[5]]
            elif k == "drop":
                succ[i] = [t[2]]
            else:
                succ[i] = []
        pred = [[] for _ in range(n)]
        for i, ss in enumerate(succ):
            for s in ss:
                pred[s].append(i)
        self._succ, self._pred = succ, pred

    def reachable_blocks(self, start=0, avoid=()):
        """Blocks reachable from `start` without entering any block in `avoid`."""
        avoid = set(avoid)
        if start in avoid:
            return set()
        seen = {start}
        dq = deque([start])
        while dq:
            b = dq.popleft()
            for s in self.succ(b):
                if s not in seen and s not in avoid:
                    seen.add(s)
                    dq.append(s)
        return seen

    def live_blocks(self):
        """Reachable from entry, excluding blocks whose terminator is `unreachable`."""
        return self.reachable_blocks(0)

    def is_unreachable_block(self, bb):
        return self.blocks[bb]["t"][0] == "unreachable" and not self.blocks[bb]["s"]

    def return_blocks(self):
        live = self.live_blocks()
        return [b for b in live if self.blocks[b]["t"][0] == "ret"]

    def dominators(self):
        """Immediate dominators (dict bb -> idom), entry maps to itself."""
        if self._idom is None:
            self._idom = _idoms(len(self.blocks), 0, self.succ, self.pred)
        return self._idom

    def dominates(self, a, b):
        """True iff block a dominates block b (both reachable)."""
        idom = self.dominators()
        if b not in idom or a not in idom:
            return False
        while True:
            if a == b:
                return True
            nb = idom[b]
            if nb == b:
                return False
            b = nb

    def must_pass(self, frm, to_set, through):
        """True iff every path from block `frm` to any block in `to_set` passes through a
        block in `through` (vacuously true if nothing in to_set is reachable)."""
        reach = self.reachable_blocks(frm, avoid=through)
        return not (reach & set(to_set))

    # -- calls and definitions
    def calls(self):
        if self._calls is None:
            self._calls = []
            for i, b in enumerate(self.blocks):
                if b["t"][0] == "call":
                    self._calls.append(Call(self, i, b["t"]))
        return self._calls

    def calls_to(self, pred):
        if isinstance(pred, str):
            s = pred
            return [c for c in self.calls() if s in c.path or s in c.via]
        return [c for c in self.calls() if pred(c)]

    def stmts(self):
        for i, b in enumerate(self.blocks):
            for j, st in enumerate(b["s"]):
                yield i, j, st

    def defs(self):
        """local -> list of ('stmt', bb, idx, rvalue) | ('call', bb, Call) | ('arg',)"""
        if self._defs is None:
            d = defaultdict(list)
            for l in range(1, self.argc + 1):
                d[l].append(("arg",))
            for i, j, st in self.stmts():
                if st[0] == "a":
                    d[place_local(st[1])].append(("stmt", i, j, st[2], st[1]))
            for c in self.calls():
                d[place_local(c.dest)].append(("call", c.bb, c))
            self._defs = d
        return self._defs

    def used_locals(self):
        """Locals read anywhere (operands, places, call arguments, switch/assert operands, drops
        excluded) plus the return place."""
        if getattr(self, "_used", None) is None:
            u = {0}
            for i, j, st in self.stmts():
                if st[0] == "a":
                    for p in rvalue_places(st[2]):
                        u.update(place_locals(p))
                    u.update(place_locals(st[1])[1:])
                    if not isinstance(st[1], int):
                        u.add(st[1][0]) if any(e == "*" for e in st[1][1]) else None
            for b in self.blocks:
                t = b["t"]
                if t[0] == "call":
                    for a in t[2]:
                        if op_local(a) is not None:
                            u.update(place_locals(op_place(a)))
                    if t[1].get("r") == "ptr" and op_local(t[1].get("op", [])) is not None:
                        u.add(op_local(t[1]["op"]))
                elif t[0] in ("switch", "assert"):
                    if op_local(t[1]) is not None:
                        u.add(op_local(t[1]))
            self._used = u
        return self._used

    def is_used(self, l):
        return l in self.used_locals()

    def single_def(self, l):
        ds = self.defs().get(l, [])
        return ds[0] if len(ds) == 1 else None

    def resolve_copy(self, l, depth=12):
        """Follow `_a = move _b` / `_a = copy _b` / `&_b` / `*_b` chains back to an origin local."""
        seen = set()
        while depth > 0 and l not in seen:
            seen.add(l)
            d = self.single_def(l)
            if not d or d[0] != "stmt":
                return l
            if not isinstance(d[4], int):
                return l
            rv = d[3]
            if rv[0] == "use" and op_place(rv[1]) is not None:
                p = op_place(rv[1])
                if isinstance(p, int) or all(e == "*" for e in p[1]):
                    l = place_local(p)
                    depth -= 1
                    continue
            if rv[0] == "ref":
                p = rv[1]
                if isinstance(p, int) or all(e == "*" for e in p[1]):
                    l = place_local(p)
                    depth -= 1
                    continue
            if rv[0] == "cast" and op_place(rv[2]) is not None:
                p = op_place(rv[2])
                if isinstance(p, int):
                    l = p
                    depth -= 1
                    continue
            return l
        return l

    # -- flow-insensitive derives-from relation
    def flow_edges(self):
        """dest local -> set of source locals (assignments, call results <- args,
        &mut arguments <- other args)."""
        if getattr(self, "_flow", None) is None:
            e = defaultdict(set)
            for i, j, st in self.stmts():
                if st[0] != "a":
                    continue
                dl = place_local(st[1])
                rv = st[2]
                for p in rvalue_places(rv):
                    for l in place_locals(p):
                        e[dl].add(l)
                if rv[0] == "ref" and rv[2]:
                    # writes through the &mut reach the referent
                    e[place_local(rv[1])].add(dl)
                for l in place_locals(st[1])[1:]:
                    e[dl].add(l)
            for c in self.calls():
                dl = place_local(c.dest)
                arg_locals = [op_local(a) for a in c.args if op_local(a) is not None]
                for a in arg_locals:
                    e[dl].add(a)
                for a in arg_locals:
                    if self.local_ty(a).startswith("&mut"):
                        for b in arg_locals:
                            if b != a:
                                e[a].add(b)
            self._flow = e
        return self._flow

    def derives_from(self, l, limit=100000):
        """Set of locals that `l` (transitively) derives from, including itself."""
        e = self.flow_edges()
        seen = {l}
        dq = deque([l])
        while dq and len(seen) < limit:
            x = dq.popleft()
            for y in e.get(x, ()):
                if y not in seen:
                    seen.add(y)
                    dq.append(y)
        return seen

    def flows_to(self, l):
        """Set of locals that (transitively) derive from `l`, including itself."""
        if getattr(self, "_rflow", None) is None:
            r = defaultdict(set)
            for d, ss in self.flow_edges().items():
                for s_ in ss:
                    r[s_].add(d)
            self._rflow = r
        seen = {l}
        dq = deque([l])
        while dq:
            x = dq.popleft()
            for y in self._rflow.get(x, ()):
                if y not in seen:
                    seen.add(y)
                    dq.append(y)
        return seen

    # -- switches
    def switches(self):
        for i, b in enumerate(self.blocks):
            if b["t"][0] == "switch":
                yield i, b["t"]

    def switch_info(self, bb):
        """Describes what a SwitchInt tests: ('disc', place, adt) | ('bin', op, a, b) |
        ('call', Call) | ('local', l) | None."""
        t = self.blocks[bb]["t"]
        l = op_local(t[1])
        if l is None:
            return None
        # find def in the same block first, else single def
        for st in reversed(self.blocks[bb]["s"]):
            if st[0] == "a" and st[1] == l:
                return _switch_from_rv(st[2], l)
        d = self.single_def(l)
        if d and d[0] == "stmt":
            return _switch_from_rv(d[3], l)
        if d and d[0] == "call":
            return ("call", d[2])
        return ("local", l)

    def const_of_promoted(self, idx):
        ps = self.d.get("promoted") or []
        return ps[idx] if idx < len(ps) else None

    def __repr__(self):
        return "Fn(%s)" % self.path


def _switch_from_rv(rv, l):
    if rv[0] == "disc":
        return ("disc", rv[1], rv[2])
    if rv[0] == "bin":
        return ("bin", rv[1], rv[2], rv[3])
    if rv[0] == "un":
        return ("un", rv[1], rv[2])
    if rv[0] == "use":
        return ("use", rv[1])
    return ("local", l)


def _idoms(n, entry, succ, pred):
    # Cooper-Harvey-Kennedy
    order = []
    seen = set()
    stack = [(entry, iter(succ(entry)))]
    seen.add(entry)
    while stack:
        node, it = stack[-1]
        adv = False
        for s in it:
            if s not in seen:
                seen.add(s)
                stack.append((s, iter(succ(s))))
                adv = True
                break
        if not adv:
            order.append(node)
            stack.pop()
    rpo = list(reversed(order))
    num = {b: i for i, b in enumerate(rpo)}
    idom = {entry: entry}
    changed = True
    while changed:
        changed = False
        for b in rpo[1:]:
            new = None
            for p in pred(b):
                if p in idom:
                    if new is None:
                        new = p
                    else:
                        a, c = p, new
                        while a != c:
                            while num[a] > num[c]:
                                a = idom[a]
                            while num[c] > num[a]:
                                c = idom[c]
                        new = a
            if new is not None and idom.get(b) != new:
                idom[b] = new
                changed = True
    return idom


# ----------------------------------------------------------------------------------------

class Facts:
    def __init__(self, facts_dir, crates=None, need_bodies=True, adts_only=()):
        """crates: iterable of crate names (underscored) to load, None = all.
        adts_only: crates of which only the type/impl facts are loaded (no function bodies)."""
        self.dir = facts_dir
        self.fns = {}
        self.adts = {}
        self.impls = []
        self.crates = {}
        self.by_name = defaultdict(list)
        files = sorted(glob.glob(os.path.join(facts_dir, "*.jsonl")),
                       key=lambda f: -os.path.getsize(f))
        want = set(crates) if crates is not None else None
        adts_only = set(adts_only)
        for f in files:
            crate = os.path.basename(f).rsplit("-", 1)[0]
            if want is not None and crate not in want and crate not in adts_only:
                continue
            skip_fns = crate in adts_only and (want is None or crate not in want)
            with open(f) as fh:
                for line in fh:
                    if skip_fns and line.startswith('{"k":"fn"'):
                        continue
                    d = json.loads(line)
                    kind = d["k"]
                    if kind == "fn":
                        if d["path"] in self.fns:
                            continue
                        fn = Fn(d, crate)
                        self.fns[fn.path] = fn
                    elif kind == "adt":
                        self.adts.setdefault(d["path"], d)
                    elif kind == "impl":
                        d["crate"] = crate
                        self.impls.append(d)
                    elif kind == "crate":
                        self.crates.setdefault(crate, d)
        for p, fn in self.fns.items():
            self.by_name[last_seg(p)].append(fn)
        self.deps = None
        dp = os.path.join(facts_dir, "deps.json")
        if os.path.exists(dp):
            self.deps = json.load(open(dp))
        self._closures = None
        self._callers = None

    # -- lookup
    def fn(self, path):
        f = self.fns.get(path)
        if f is None:
            raise KeyError(path)
        return f

    def find(self, *frags, kind=None, name=None):
        """Functions whose path contains all fragments (and whose last segment is `name`)."""
        r = []
        for p, f in self.fns.items():
            if all(x in p for x in frags) and (kind is None or f.kind == kind):
                if name is not None and last_seg(p) != name:
                    continue
                r.append(f)
        return r

    def find1(self, *frags, kind=None, name=None):
        """Exactly one non-closure function whose path contains all fragments, else AnchorError.

        An anchor names a function of the pinned tree.  When the name no longer resolves (the function was renamed or
        moved to another module), the recorded *shape* of the anchor - parameter and return types and the functions it
        calls - is looked for among the functions of the same crate; a unique close match is taken instead, so that a
        rename or a move is not reported as a broken check."""
        r = [f for f in self.find(*frags, kind=kind, name=name) if f.kind != "Closure" and "{closure" not in f.path]
        key = "+".join(frags) + "|" + (name or "") + "|" + (kind or "")
        if len(r) == 1:
            _anchor_record(key, r[0])
            return r[0]
        if len(r) == 0:
            alt = self._anchor_by_shape(key)
            if alt is not None:
                return alt
        raise AnchorError("anchor %s resolves to %d functions: %s" % (
            "+".join(frags) + ("::" + name if name else ""), len(r), [f.path for f in r][:6]))

    def _anchor_by_shape(self, key):
        shape = _anchor_table().get(key)
        if not shape:
            return None
        best, second = None, 0.0
        for f in self.fns.values():
            if f.crate != shape["crate"] or not f.body or f.kind == "Closure" or "{closure" in f.path:
                continue
            if _signature(f) != shape["sig"]:
                continue
            sim = _jaccard(_callee_bag(f), shape["callees"])
            if best is None or sim > best[0]:
                second = best[0] if best else 0.0
                best = (sim, f)
            elif sim > second:
                second = sim
        if best and best[0] >= 0.7 and best[0] - second >= 0.15:
            return best[1]
        return None

    def tracked_body(self, *frags, name):
        """User body of a `#[salsa::tracked] fn name`: salsa moves it into
        `<.._::name_Configuration_ as salsa::function::Configuration>::execute::inner_`."""
        key = "::%s_Configuration_ as salsa::function::Configuration>::execute::inner_" % name
        r = [f for p, f in self.fns.items() if p.endswith(key) and all(x in p for x in frags)]
        if len(r) != 1:
            raise AnchorError("tracked fn %s resolves to %d bodies" % (name, len(r)))
        return r[0]

    def closures_of(self, fn):
        """Closures (transitively) defined inside fn."""
        if self._closures is None:
            m = defaultdict(list)
            for f in self.fns.values():
                if f.kind in ("Closure", "InlineConst") and f.root != f.path:
                    m[f.root].append(f)
            self._closures = m
        return self._closures.get(fn.path, [])

    def with_closures(self, fn):
        return [fn] + self.closures_of(fn)

    def callers_of(self, path_frag):
        out = []
        for f in self.fns.values():
            for c in f.calls():
                if path_frag in c.path or path_frag in c.via:
                    out.append(c)
        return out

    def impls_of(self, trait_suffix):
        return [i for i in self.impls if i.get("trait", "").endswith(trait_suffix)]

    def adt_impls(self, adt_path):
        return [i for i in self.impls if i.get("self_adt") == adt_path]


_ANCHORS = None
_ANCHOR_NEW = {}
ANCHOR_TABLE = os.path.join(os.path.dirname(os.path.abspath(__file__)), "..", "tables", "anchors.json")


def _anchor_table():
    global _ANCHORS
    if _ANCHORS is None:
        try:
            with open(ANCHOR_TABLE) as fh:
                _ANCHORS = json.load(fh)
        except (OSError, ValueError):
            _ANCHORS = {}
    return _ANCHORS


def _signature(f):
    return [strip_lifetimes(f.local_ty(i) or "") for i in range(0, f.argc + 1)]


def strip_lifetimes(t):
    import re
    return re.sub(r"'\w+\s?", "", t)


def _callee_bag(f):
    bag = {}
    for c in f.calls():
        n = last_seg(c.path)
        if n:
            bag[n] = bag.get(n, 0) + 1
    return bag


def _jaccard(a, b):
    keys = set(a) | set(b)
    if not keys:
        return 1.0
    inter = sum(min(a.get(k, 0), b.get(k, 0)) for k in keys)
    union = sum(max(a.get(k, 0), b.get(k, 0)) for k in keys)
    return inter / union if union else 1.0


def _anchor_record(key, f):
    """With VERIF_WRITE_ANCHORS=1 the shapes of all resolved anchors are (re)written to tables/anchors.json."""
    if not os.environ.get("VERIF_WRITE_ANCHORS"):
        return
    _ANCHOR_NEW[key] = {"crate": f.crate, "path": f.path, "sig": _signature(f), "callees": _callee_bag(f)}
    tab = dict(_anchor_table())
    tab.update(_ANCHOR_NEW)
    with open(ANCHOR_TABLE, "w") as fh:
        json.dump(tab, fh, indent=0, sort_keys=True)
    global _ANCHORS
    _ANCHORS = tab


class AnchorError(Exception):
    pass


# ----------------------------------------------------------------------------------------
# call graph over loaded functions

class CallGraph:
    def __init__(self, facts):
        self.facts = facts
        self.edges = defaultdict(set)     # caller path -> callee paths (known fns only)
        self.ext = defaultdict(set)       # caller path -> external callee paths
        self.impl_methods = defaultdict(list)  # (trait, method) -> [fn paths]
        for f in facts.fns.values():
            t = f.d.get("trait")
            if t and f.kind == "AssocFn":
                self.impl_methods[(t, f.name)].append(f.path)
        for f in facts.fns.values():
            # a function "calls" its closures (they may run whenever it runs)
            if f.kind in ("Closure", "InlineConst") and f.root != f.path and f.root in facts.fns:
                self.edges[f.root].add(f.path)
            for c in f.calls():
                self._add(f, c)
            # function items passed as values (e.g. `.map(Self::foo)`)
            if f.body:
                for i, j, st in f.stmts():
                    pass

    def _add(self, f, c):
        cal = c.callee
        r = cal.get("r")
        p = cal.get("path")
        if r == "ptr" or p is None:
            return
        if p in self.facts.fns:
            self.edges[f.path].add(p)
        else:
            self.ext[f.path].add(p)
        if r in ("unresolved", "virtual") and cal.get("trait"):
            # class-hierarchy resolution: all workspace impls of that trait method that the caller's
            # crate can see (its own crate and its dependency closure)
            deps = self.facts.deps
            visible = None
            if deps is not None and f.crate in deps:
                visible = set(deps[f.crate]) | {f.crate}
            for ip in self.impl_methods.get((cal["trait"], cal.get("method")), ()):
                if visible is not None and self.facts.fns[ip].crate not in visible:
                    continue
                self.edges[f.path].add(ip)
        # fn items passed as arguments may be called by the callee
        for a in c.args:
            if a[0] == "k" and a[1] == "fn":
                q = a[2].get("path")
                if q in self.facts.fns:
                    self.edges[f.path].add(q)
            elif a[0] == "k" and a[1] == "closure":
                if a[2] in self.facts.fns:
                    self.edges[f.path].add(a[2])

    def reachable(self, roots, stop=None):
        """paths reachable from roots; returns dict path -> predecessor (for witnesses)."""
        prev = {}
        dq = deque()
        for r in roots:
            if r not in prev:
                prev[r] = None
                dq.append(r)
        while dq:
            x = dq.popleft()
            if stop and stop(x):
                continue
            for y in sorted(self.edges.get(x, ())):
                if y not in prev:
                    prev[y] = x
                    dq.append(y)
        return prev

    @staticmethod
    def witness(prev, node, maxlen=12):
        path = [node]
        while prev.get(path[-1]) is not None and len(path) < maxlen:
            path.append(prev[path[-1]])
        return list(reversed(path))


# ----------------------------------------------------------------------------------------
# helpers shared by rule sets

def const_strings_in(fn, include_promoted=True):
    """All string constants appearing in a function body (and its promoteds)."""
    out = []

    def scan_body(b):
        for bl in b["blocks"]:
            for st in bl["s"]:
                if st[0] == "a":
                    for op in rvalue_operands(st[2]):
                        if op[0] == "k" and op[1] == "str":
                            out.append(op[2])
            t = bl["t"]
            if t[0] == "call":
                for op in t[2]:
                    if op[0] == "k" and op[1] == "str":
                        out.append(op[2])
    if fn.body:
        scan_body(fn.body)
    if include_promoted:
        for p in fn.d.get("promoted") or []:
            scan_body(p)
    return out


def short(path, n=70):
    s = strip_generics(path)
    return s if len(s) <= n else "…" + s[-n:]


def promoted_consts(fn, idx):
    """Scalar / string constants found in promoted body `idx` (in order)."""
    pb = fn.const_of_promoted(idx)
    out = []
    if not pb:
        return out
    for bl in pb["blocks"]:
        for st in bl["s"]:
            if st[0] == "a":
                for o in rvalue_operands(st[2]):
                    if o[0] == "k" and o[1] in ("int", "str", "bytes"):
                        out.append(o[2])
    return out


def operand_scalar(fn, op):
    """Resolves an operand to a constant scalar when it is a literal, a copy of one, or a
    reference to a promoted literal; else None."""
    c = op_const(op)
    if c is not None:
        if c[0] in ("int", "str"):
            return c[1]
        if c[0] == "promoted":
            vals = promoted_consts(fn, op[2])
            return vals[0] if len(vals) == 1 else None
        return None
    l = op_local(op)
    if l is None:
        return None
    l = fn.resolve_copy(l)
    d = fn.single_def(l)
    if d and d[0] == "stmt" and d[3][0] == "use":
        return operand_scalar(fn, d[3][1]) if op_local(d[3][1]) != l else None
    return None
