"""C19 - a compiled Starknet class is consistent and reproducible from its Sierra (clause:
class-level validation guards, offset provenance, canonical felts, builtin-order tables)."""
import os
import re

from .guards import (Cmp, CallResult, Field, check_guard, prov, op_prov, bool_condition, bool_edge_value,
                     switch_edges, marker_matches, blocks_constructing, ok_block_after)
from .lib import (op_local, op_const, op_place, place_local, place_proj, place_fields, rvalue_operands, rvalue_places,
                  promoted_consts, last_seg, AnchorError)

EXPLANATION = (
    "Decides the structural clause of C19: CasmContractClass::from_contract_class_with_debug_info returns Ok "
    "only after the class-level checks (sorted unique selectors over all three entry-point lists, constructor "
    "shape, signature shape, builtins in ENTRY_POINT_BUILTIN_ORDER with gas and system last, subsequence order); "
    "each entry point's offset derives from start_offset of the statement info indexed by the function's "
    "entry_point, selector and builtins from the validated data of the same list; every bytecode word is "
    "reduced modulo the prime with negatives mapped to prime - r; and the builtin order validated equals the "
    "order the Starknet plugin generates and the protocol order (tables/c19_builtin_order.txt). Equality with "
    "direct compilation and hash stability under JSON are not decided.")
ASSUMPTIONS = ["the protocol builtin order in tables/c19_builtin_order.txt is the Starknet OS order (external specification)"]
EXHAUSTIVE = True
CRATES = ["cairo_lang_starknet_classes", "cairo_lang_starknet", "cairo_lang_sierra", "cairo_lang_executable_plugin"]
SSCE = "StarknetSierraCompilationError"


def snake(s):
    if s == "RangeCheck96":
        return "range_check96"
    return re.sub(r"(?<!^)(?=[A-Z])", "_", s).lower()


def type_id_string(F, opaque):
    """`<path::XType as ..NamedType>::ID` -> the string passed to GenericTypeId::new_inline."""
    m = re.match(r"^<(.+?) as ", opaque)
    if not m:
        return None
    ty = m.group(1)
    for f in F.fns.values():
        if f.kind == "AssocConst" and f.name == "ID" and f.d.get("self_ty", "").split("<")[0] == ty and f.body:
            for c in f.calls():
                if c.name() in ("new_inline", "from_string") and c.args:
                    k = op_const(c.args[0])
                    if k and k[0] == "str":
                        return k[1]
    return None


def run(ctx):
    F = ctx.load(CRATES)
    CC = "cairo_lang_starknet_classes::casm_contract_class::"
    main = F.find1(CC + "CasmContractClass", name="from_contract_class_with_debug_info")
    ctx.analysed(main)
    closures = F.closures_of(main)

    def g(rule, key, fn, matcher, err=None, rel=None, **kw):
        ctx.analysed(fn)
        r = check_guard(fn, matcher, err=err, expect_rel=rel, **kw)
        ctx.ob(rule, key, r.ok, r.msg, fn.where(r.line))
        return r

    # ---------------- R19.1 guards in the main function
    # the order / uniqueness test of the selectors, wherever it sits (inline in the main function or in a helper of the
    # crate it calls), ranges over the three lists, compares *adjacent* entries and rejects Equal and Greater
    def has_selector_cmp(f_):
        return any(c.name() == "cmp" and any("f:selector" in op_prov(f_, a_) for a_ in c.args) for c in f_.calls())
    sel = main if has_selector_cmp(main) else None
    via = []
    if sel is None:
        for c in main.calls():
            g_ = F.fns.get(c.path)
            if g_ is not None and g_.body and g_.crate == main.crate and has_selector_cmp(g_):
                sel = g_
                via.append(c)
    KINDS3 = ("constructor", "external", "l1_handler")
    three = None
    if sel is main:
        for _, _, st in main.stmts():
            if st[0] == "a" and st[2][0] == "agg" and st[2][1] == "array" and len(st[2][3]) == 3:
                ps = [op_prov(main, o, 6) for o in st[2][3]]
                names = []
                for p in ps:
                    hit = [n for n in KINDS3 if "f:" + n in p]
                    names.append(hit[0] if len(hit) == 1 else None)
                if None not in names:
                    three = names
    elif sel is not None:
        names = []
        for c in via:
            toks = set()
            for a_ in c.args:
                toks |= op_prov(main, a_, 8)
            hit = [n for n in KINDS3 if "f:" + n in toks]
            used = _result_propagated(main, c)
            if len(hit) == 1 and used:
                names.append(hit[0])
            elif len(hit) == 3 and used:
                names += list(hit)        # called in a loop over the three lists
        three = names
    ctx.ob("R19.1", "selector-order:three-lists", three is not None and sorted(set(three)) == sorted(KINDS3),
           "order/uniqueness test ranges over %s%s" % (three, "" if sel is main or sel is None else " (through %s, result propagated)" % last_seg(sel.path)),
           main.where())
    if sel is None:
        ctx.ob("R19.1", "selector-order:test", False, "no comparison of entry point selectors found in the class compiler", main.where())
    else:
        ctx.analysed(sel)
        g("R19.1", "selector-order:Equal=>Duplicate", sel, CallResult("::cmp", "0", arg="f:selector"),
          err=(SSCE, "DuplicateEntryPointSelector"))
        g("R19.1", "selector-order:Greater=>OutOfOrder", sel, CallResult("::cmp", "1", arg="f:selector"),
          err=(SSCE, "EntryPointsOutOfOrder"))
        names_in = [c.name() for c in sel.calls()]
        overlapping = [n for n in names_in if n in ("tuple_windows", "windows", "array_windows", "circular_tuple_windows", "is_sorted_by")]
        skipping = [n for n in names_in if n in ("tuples", "chunks", "chunks_exact", "array_chunks", "step_by", "tuple_combinations")]
        zip_skip = "zip" in names_in and "skip" in names_in
        ctx.ob("R19.1", "selector-order:adjacent-pairs", (bool(overlapping) or zip_skip) and not skipping,
               "every adjacent pair of entry points is compared (%s)" % (overlapping or ["zip+skip"])[0] if (overlapping or zip_skip) and not skipping else
               "the selectors are compared over `%s`, which does not visit every adjacent pair: an out-of-order or repeated selector between two "
               "visited groups is accepted" % (skipping or ["an unrecognised pairing"])[0], sel.where())
        for c in [c for c in sel.calls() if c.name() == "cmp"]:
            if any("f:selector" in op_prov(sel, a) for a in c.args):
                p0, p1 = op_prov(sel, c.args[0]), op_prov(sel, c.args[1])
                ctx.ob("R19.1", "selector-order:operands", "f:selector" in p0 and "f:selector" in p1 and
                       (("f:0" in p0 and "f:1" in p1 and "f:1" not in p0) or ("n:prev" in p0 and "n:next" in p1)),
                       "prev.selector.cmp(&next.selector)", c.where())
    # constructor shape
    sinks = blocks_constructing(main, SSCE, "InvalidConstructorEntryPoint")
    anchor = [c.bb for c in main.calls_to("ProgramRegistryInfo::new")]
    ok = bool(sinks) and bool(anchor)
    msg = "InvalidConstructorEntryPoint not constructed or continuation not found"
    if ok:
        # every path to the continuation passes a test of the constructor list length, and a
        # one-element list is accepted only through the selector comparison
        from .guards import _all_paths_hit
        eqs = [c for c in main.calls() if c.name() in ("eq", "ne") and
               any("f:selector" in op_prov(main, a) for a in c.args) and
               any("static:CONSTRUCTOR_ENTRY_POINT_SELECTOR" in op_prov(main, a) for a in c.args)]
        len_sw = [bb for bb, t in main.switches() if _is_len_switch(main, bb, "f:constructor")]
        one = []
        for bb in len_sw:
            info, flip = bool_condition(main, bb)
            if info and info[0] == "bin" and info[1] == "Eq" and (
                    "k:1" in op_prov(main, info[2], 3) | op_prov(main, info[3], 3)):
                one.append(bb)
        ok = len(eqs) == 1 and len(one) == 1 and main.must_pass(0, anchor, set(len_sw))
        if ok:
            sw1 = one[0]
            t_succ = [s for s in main.succ(sw1) if bool_edge_value(main, sw1, s) is True]
            f_succ = [s for s in main.succ(sw1) if bool_edge_value(main, sw1, s) is False]
            # more than one constructor -> rejected
            ok = bool(f_succ) and all(_all_paths_hit(main, s, set(sinks), sw1) for s in f_succ)
            # exactly one -> accepted only through the selector comparison
            c = eqs[0]
            r = check_guard(main, CallResult("::" + c.name(), False if c.name() == "eq" else True, arg="f:selector"),
                            sinks=set(sinks), protects=anchor, entry=t_succ[0] if t_succ else 0)
            ok = ok and r.ok
        msg = "constructor list: length tests %d, `len == 1` test %d, selector compared with CONSTRUCTOR_ENTRY_POINT_SELECTOR %d" % (
            len(len_sw), len(one), len(eqs))
    ctx.ob("R19.1", "constructor-shape", ok, msg, main.where())
    g("R19.1", "sierra-version", main, Cmp("le", "f:minor", "f:minor"), err=(SSCE, "UnsupportedSierraVersion"),
      bypass="none")

    # validate_entry_point closure: the closure that constructs EntryPointError
    vep = [f for f in closures if blocks_constructing(f, SSCE, "EntryPointError")]
    if len(vep) != 1:
        raise AnchorError("validate_entry_point closure resolves to %d" % len(vep))
    vep = vep[0]
    ctx.analysed(vep)
    g("R19.1", "entry-point:function_idx", vep, CallResult("::get", "None", arg="f:function_idx"), err=(SSCE, "EntryPointError"))
    # the four `require(..)?` of the validation are told apart by what their condition is computed from (a slice
    # equality of the two builtin lists split off the signature, the two predicates, the subsequence `all`), not by names
    for key, marker in (("input==output builtins", ["c:eq", "f:0", "f:1"]),
                        ("is_felt252_span", ["c:is_felt252_span"]),
                        ("is_valid_entry_point_return_type", ["c:is_valid_entry_point_return_type"])):
        g("R19.1", "entry-point:require:" + key, vep, CallResult("require", "Break", arg=marker), bypass="auto")
    # the builtins must be a *strictly* increasing selection of the protocol order (no repetition): either the stateful
    # subsequence test (`all` over the builtins advancing one iterator over the order with `any`), or strictly sorted
    # positions (is_sorted_by with a strict comparison / windows(2).all(a < b))
    vgroup = [vep] + [f for f in F.closures_of(main) if f.path.startswith(vep.path + "::{closure")]
    names_in = {c.name() for f in vgroup for c in f.calls()}
    r_sub = check_guard(vep, CallResult("require", "Break", arg=["c:all"]), bypass="auto")
    form = None
    if r_sub.ok and "any" in names_in:
        form = "stateful subsequence test (all / any over one iterator of the order)"
    elif r_sub.ok and "windows" in names_in and ("lt" in names_in or any(st[0] == "a" and st[2][0] == "bin" and st[2][1] == "Lt" for f in vgroup for _, _, st in f.stmts())):
        form = "strictly increasing positions (windows(2).all(a < b))"
    else:
        r2 = check_guard(vep, CallResult("require", "Break", arg=["c:is_sorted_by"]), bypass="auto")
        strict = any(st[0] == "a" and st[2][0] == "bin" and st[2][1] == "Lt" for f in vgroup for _, _, st in f.stmts()) or "lt" in names_in
        if r2.ok and strict:
            form = "strictly increasing positions (is_sorted_by with `<`)"
    nonstrict = [c for f in vgroup for c in f.calls() if c.name() in ("is_sorted", "is_sorted_by_key")]
    ctx.analysed(vep)
    ctx.ob("R19.1", "entry-point:require:builtin-subsequence", form is not None,
           "builtins are checked to be a strictly increasing selection of ENTRY_POINT_BUILTIN_ORDER: %s" % form if form else
           ("the order of the builtins is tested with `%s`, which accepts equal neighbours: an entry point may repeat a builtin" % nonstrict[0].name()
            if nonstrict else "no strict order / subsequence test of the builtins against ENTRY_POINT_BUILTIN_ORDER rejects with `?`: " + r_sub.msg),
           (nonstrict[0].where() if nonstrict else vep.where(r_sub.line)))
    g("R19.1", "entry-point:builtin-in-table", vep, CallResult("::contains", False, arg="c:get_generic_id"),
      err=(SSCE, "InvalidBuiltinType"))
    for nm, ty in (("system_ty", "SystemType"), ("gas_ty", "GasBuiltinType")):
        ctx.analysed(vep)
        r_ = check_guard(vep, Cmp("ne", ["c:get_generic_id", "n:" + nm], ["c:id", "targ:" + ty]), expect_rel="ne",
                         err=(SSCE, "InvalidEntryPointSignatureWrongBuiltinsOrder"), bypass="none")
        if not r_.ok:
            # the local may have been renamed: the comparison with <ty>::id() is still required
            r_ = check_guard(vep, Cmp("ne", ["c:get_generic_id"], ["c:id", "targ:" + ty]), expect_rel="ne",
                             err=(SSCE, "InvalidEntryPointSignatureWrongBuiltinsOrder"), bypass="none")
        ctx.ob("R19.1", "entry-point:last-builtins:" + nm, r_.ok, r_.msg, vep.where(r_.line))
    for var in ("InvalidEntryPointSignature", "InvalidEntryPointSignatureMissingArgs"):
        ctx.ob("R19.1", "entry-point:split-guards:" + var, bool(blocks_constructing(vep, SSCE, var)),
               "signature split failures are rejected", vep.where())
    # subsequence closure compares against ENTRY_POINT_BUILTIN_ORDER in order
    inner = [f for f in F.closures_of(main) if f.path.startswith(vep.path + "::{closure")]
    any_cl = [f for f in inner if any(c.name() == "any" for c in f.calls())]
    ctx.ob("R19.1", "entry-point:subsequence-uses-order-iter", len(any_cl) >= 1 and
           any("ENTRY_POINT_BUILTIN_ORDER" in str(st) for _, _, st in vep.stmts()),
           "order check advances one iterator over ENTRY_POINT_BUILTIN_ORDER", vep.where())
    # the returned triple: (function.entry_point, &function.id, builtins)
    ok = False
    for _, _, st in vep.stmts():
        if st[0] == "a" and st[2][0] == "agg" and st[2][1] in ("tuple", "adt") and len(st[2][3]) >= 3 \
                and not (st[2][1] == "adt" and st[2][2].startswith("core::")):
            ps = [op_prov(vep, o, 10) for o in st[2][3]]
            # the three pieces of one validated entry point travel together (as a tuple or a small struct)
            if any("f:entry_point" in p_ for p_ in ps) and any("f:id" in p_ for p_ in ps) and any("c:collect_vec" in p_ for p_ in ps):
                ok = True
    ctx.ob("R19.2", "validated-info:(entry_point,id,builtins)", ok,
           "validated info carries the function's entry statement, id and builtin names", vep.where())

    # all three lists validated before compilation
    vcalls = []
    for c in main.calls():
        if c.callee.get("r") != "ptr" and "{closure" in c.path and c.path.startswith(main.path):
            pass
    lists_validated = {}
    for c in main.calls():
        toks = set()
        for a in c.args:
            toks |= op_prov(main, a, 8)
        if ("{closure" in c.path or c.name() in ("call", "call_mut", "call_once")) and any(
                "f:" + n in toks for n in ("external", "l1_handler", "constructor")):
            dty = main.local_ty(place_local(c.dest))
            if dty.startswith("core::result::Result<alloc::vec::Vec<"):
                hit = [n for n in ("external", "l1_handler", "constructor") if "f:" + n in toks]
                if len(hit) == 1:
                    lists_validated[hit[0]] = c
    compile_calls = [c.bb for c in main.calls_to("cairo_lang_sierra_to_casm::compiler::compile")]
    for n in ("external", "l1_handler", "constructor"):
        c = lists_validated.get(n)
        ok = c is not None and bool(compile_calls)
        if ok:
            okb = ok_block_after(main, c)
            ok = okb is not None and all(main.dominates(okb, b) for b in compile_calls)
        ctx.ob("R19.1", "validate-all-lists:" + n, ok,
               "entry points of `%s` are validated and the success edge dominates compilation" % n, main.where())

    # ---------------- R19.2 offsets
    ace = [f for f in closures if any(st[0] == "a" and st[2][0] == "agg" and st[2][1] == "adt" and
                                      st[2][2].endswith("CasmContractEntryPoint") for _, _, st in f.stmts())]
    if len(ace) != 1:
        raise AnchorError("as_casm_entry_points inner closure resolves to %d" % len(ace))
    ace = ace[0]
    ctx.analysed(ace)
    for _, _, st in ace.stmts():
        if st[0] == "a" and st[2][0] == "agg" and st[2][1] == "adt" and st[2][2].endswith("CasmContractEntryPoint"):
            ops = dict(zip(st[2][5], st[2][3]))
            po = op_prov(ace, ops["offset"], 10)
            ctx.ob("R19.2", "offset<-start_offset", "f:start_offset" in po and marker_matches(po, "~sierra_statement_info") and
                   "f:end_offset" not in po and "f:instruction_idx" not in po,
                   "offset derives from sierra_statement_info[..].start_offset: %s" % sorted(x for x in po if x.startswith("f:")),
                   ace.where(st[3]))
            # the index is the statement id of the validated info (tuple field 0 of the second component)
            idx_ok = False
            for c in ace.calls():
                if c.name() == "index" and len(c.args) == 2 and marker_matches(op_prov(ace, c.args[0], 6), "~sierra_statement_info"):
                    il = op_local(c.args[1])
                    srcs = (ace.derives_from(il) | {il}) if il is not None else set()
                    # the index comes out of the closure's argument (the zipped validated info) and is a statement index
                    from_arg = any(1 < x <= ace.argc for x in srcs)
                    is_stmt = any("StatementIdx" in (ace.local_ty(x) or "") for x in srcs) or any(
                        isinstance(e, list) and e[0] == "f" and str(e[3]).endswith("StatementIdx")
                        for _, _, st2 in ace.stmts() if st2[0] == "a" and place_local(st2[1]) in srcs
                        for pl in rvalue_places(st2[2]) for e in place_proj(pl))
                    if from_arg and is_stmt and place_local(c.dest) in ace.derives_from(op_local(ops["offset"])):
                        idx_ok = True
            ctx.ob("R19.2", "offset-index<-statement_id", idx_ok, "statement info is indexed by the validated entry statement",
                   ace.where(st[3]))
            ps = op_prov(ace, ops["selector"], 8)
            ctx.ob("R19.2", "selector<-contract_entry_point.selector", "f:selector" in ps, "selector copied from the contract entry point", ace.where(st[3]))
            pb = op_prov(ace, ops["builtins"], 8)
            ctx.ob("R19.2", "builtins<-validated", "n:builtins" in pb or "arg:2" in pb, "builtins come from the validated info", ace.where(st[3]))
    # pairing of lists with infos, and target fields
    agg = None
    for _, _, st in main.stmts():
        if st[0] == "a" and st[2][0] == "agg" and st[2][1] == "adt" and st[2][2].endswith("CasmContractEntryPoints"):
            agg = st[2]
    if agg is None:
        ctx.ob("R19.2", "entry-point-lists", False, "CasmContractEntryPoints aggregate not found", main.where())
    else:
        for name, o in zip(agg[5], agg[3]):
            toks = op_prov(main, o, 10)
            lists = [n for n in ("external", "l1_handler", "constructor") if "f:" + n in toks]
            infos = [n for n in ("external", "l1_handler", "constructor") if ("n:%s_infos" % n) in toks]
            ctx.ob("R19.2", "pairing:" + name, lists == [name.lower()] and infos == [name.lower()],
                   "field %s built from lists %s and infos %s" % (name, lists, infos), main.where())

    # ---------------- R19.3 canonical felts
    canon = [f for f in closures if any(c.name() == "div_rem" for c in f.calls()) and
             any(c.name() == "is_negative" for c in f.calls())]
    ok = False
    msg = "canonicalising closure not found"
    if len(canon) == 1:
        f = canon[0]
        ctx.analysed(f)
        sub_blocks = [c.bb for c in f.calls() if c.name() == "sub" and any("a:prime" in op_prov(f, a, 8) or "~prime" for a in c.args)]
        # the only value other than the remainder r (< prime) is prime - r, and that is built only for a negative word
        # with r != 0 (prime - 0 is the prime itself, not a field element)
        neg_true, neg_false, zero_true, zero_false = set(), set(), set(), set()
        for bb, t in f.switches():
            info, flip = bool_condition(f, bb)
            if not (info and info[0] == "call"):
                continue
            nm = info[1].name()
            tr = {s for s in f.succ(bb) if (bool_edge_value(f, bb, s) ^ flip) is True}
            fa = {s for s in f.succ(bb) if (bool_edge_value(f, bb, s) ^ flip) is False}
            if nm == "is_negative":
                neg_true |= tr
                neg_false |= fa
            elif nm == "is_zero" and "c:div_rem" in op_prov(f, info[1].args[0], 10):
                zero_true |= tr
                zero_false |= fa
        dr = [c for c in f.calls() if c.name() == "div_rem"]
        under_neg = bool(sub_blocks) and all(any(f.dominates(s_, b) for s_ in neg_true) for b in sub_blocks)
        under_nonzero = bool(sub_blocks) and all(any(f.dominates(s_, b) for s_ in zero_false) for b in sub_blocks)
        pos_ok = bool(neg_false) and not any(b in f.reachable_blocks(s_) | {s_} for s_ in neg_false for b in sub_blocks)
        dom_ok = bool(dr) and all(any(f.dominates(c.bb, b) for c in dr) for b in sub_blocks)
        ok = under_neg and under_nonzero and pos_ok and dom_ok
        msg = ("prime - r is built only for a negative word: %s, only when r != 0: %s; a non-negative word gives r: %s; div_rem(prime) first: %s" % (
            under_neg, under_nonzero, pos_ok, dom_ok))
    ctx.ob("R19.3", "bytecode:canonical", ok, msg, canon[0].where() if canon else main.where())
    if len(canon) == 1:
        # ... and no word leaves the closure without the reduction: every value it returns derives from the remainder
        f = canon[0]
        dr = [c for c in f.calls() if c.name() == "div_rem"]
        rets = f.return_blocks()
        dominated = bool(dr) and all(any(f.dominates(c.bb, r) for c in dr) for r in rets)
        vals = []
        for _, _, st in f.stmts():
            if st[0] == "a" and st[2][0] == "agg" and st[2][1] == "adt" and "value" in (st[2][5] or []):
                o = dict(zip(st[2][5], st[2][3]))["value"]
                vals.append("c:div_rem" in op_prov(f, o, 12))
        ctx.ob("R19.3", "bytecode:every-word-reduced", dominated and bool(vals) and all(vals),
               "every return of the canonicalising closure is dominated by div_rem(prime) and every word it builds derives from the remainder (%d)" % len(vals)
               if dominated and vals and all(vals) else
               "a bytecode word can leave the canonicalising closure without the reduction modulo the prime (returns dominated by div_rem: %s; words deriving "
               "from the remainder: %s)" % (dominated, vals), f.where())
    selfagg = None
    for _, _, st in main.stmts():
        if st[0] == "a" and st[2][0] == "agg" and st[2][1] == "adt" and st[2][2].endswith("::CasmContractClass"):
            selfagg = st[2]
    ok = False
    if selfagg is not None:
        toks = op_prov(main, dict(zip(selfagg[5], selfagg[3]))["bytecode"], 24)
        ok = "c:collect_vec" in toks and "c:map" in toks and "c:assemble" in toks
        if not ok:
            ctx.notes.append("bytecode prov: %s" % sorted(x for x in toks if x[0] in "cn"))
    ctx.ob("R19.3", "bytecode<-map(canonical)(assemble())", ok, "class bytecode is the canonicalised assembled bytecode", main.where())

    # ---------------- R19.4 tables
    static = F.find1(CC + "ENTRY_POINT_BUILTIN_ORDER", kind="Static")
    ids = []
    arr = None
    consts = {}
    for _, _, st in static.stmts():
        if st[0] == "a" and st[2][0] == "use" and st[2][1][0] == "k":
            consts[st[1]] = st[2][1]
        if st[0] == "a" and st[2][0] == "agg" and st[2][1] == "array":
            arr = st[2][3]
    for o in arr or []:
        k = o if o[0] == "k" else consts.get(op_local(o))
        ids.append(type_id_string(F, k[2]) if k else None)
    proto = [l.strip() for l in open(os.path.join(os.path.dirname(__file__), "..", "tables", "c19_builtin_order.txt"))
             if l.strip() and not l.startswith("#")]
    ctx.floor("ENTRY_POINT_BUILTIN_ORDER entries", len(ids), 9)
    ctx.ob("R19.4", "ENTRY_POINT_BUILTIN_ORDER==protocol", None not in ids and [snake(i) for i in ids] == proto[:-2],
           "validated order %s vs protocol %s" % (ids, proto[:-2]), static.where())
    ctx.sample({"ENTRY_POINT_BUILTIN_ORDER": ids})
    ip = F.find1("cairo_lang_starknet::plugin::consts::IMPLICIT_PRECEDENCE", kind="Const")
    ipv = promoted_consts(ip, 0)
    ipn = [x.rsplit("::", 1)[-1] for x in ipv]
    ctx.ob("R19.4", "plugin IMPLICIT_PRECEDENCE==ENTRY_POINT_BUILTIN_ORDER+[gas,system]",
           ipn == ids + ["GasBuiltin", "System"], "plugin order %s" % ipn, ip.where())
    ctx.ob("R19.4", "plugin order==protocol", [snake(x) for x in ipn[:-2]] + ["gas", "system"] == proto or
           [snake(x) for x in ipn[:-2]] + [{"GasBuiltin": "gas", "System": "system"}.get(x, x) for x in ipn[-2:]] == proto,
           "plugin order in protocol names %s" % [snake(x) for x in ipn], ip.where())
    ep = F.find1("cairo_lang_executable_plugin::IMPLICIT_PRECEDENCE", kind="Const")
    epn = [x.rsplit("::", 1)[-1] for x in promoted_consts(ep, 0)]
    common = [x for x in ipn if x in epn]
    ctx.ob("R19.4", "executable-plugin order consistent", common == epn and len(epn) >= 5,
           "executable plugin order %s is a subsequence of the Starknet order" % epn, ep.where())
    # name conversion: the digit-suffixed builtin needs its explicit arm
    strs = set()
    for f in [vep] + inner:
        for _, _, st in f.stmts():
            if st[0] == "a":
                for o in rvalue_operands(st[2]):
                    if o[0] == "k" and o[1] == "str":
                        strs.add(o[2])
        for c in f.calls():
            for a in c.args:
                if a[0] == "k" and a[1] == "str":
                    strs.add(a[2])
            for a in c.args:
                if a[0] == "k" and a[1] == "promoted":
                    for v in promoted_consts(f, a[2]):
                        strs.add(v)
        for p in range(len(f.d.get("promoted") or [])):
            for v in promoted_consts(f, p):
                strs.add(v)
    ctx.ob("R19.4", "name-conversion:RangeCheck96-arm", "RangeCheck96" in strs and "range_check96" in strs,
           "explicit \"RangeCheck96\" => \"range_check96\" arm present", vep.where())
    # gas / system ids used by the last-builtins check
    for ty, want in (("SystemType", "System"), ("GasBuiltinType", "GasBuiltin")):
        got = None
        for f in F.fns.values():
            if f.kind == "AssocConst" and f.name == "ID" and last_seg(f.d.get("self_ty", "")) == ty:
                for c in f.calls():
                    k = op_const(c.args[0]) if c.args else None
                    if k and k[0] == "str":
                        got = k[1]
        ctx.ob("R19.4", "id:" + ty, got == want, "%s::ID == %r" % (ty, got), "")

    # ---------------- R19.5 segments
    seg = "cairo_lang_starknet_classes::contract_segmentation::"
    ffs = F.find1(seg + "find_functions_segments")
    g("R19.5", "segments:NoFunctionStartAtZero", ffs, CallResult("require", "Break"), bypass="none")
    # the function itself, its closures, and the same-module helpers it calls directly
    scope = list(F.with_closures(ffs))
    for c in ffs.calls():
        if c.path in F.fns and c.path.startswith(seg):
            scope += F.with_closures(F.fns[c.path])
    ctx.ob("R19.5", "segments:starts<-entry_point", any(
        "entry_point" in place_fields(p) for f in scope for _, _, st in f.stmts() if st[0] == "a"
        for p in rvalue_places(st[2])), "segment starts are the functions' entry statements", ffs.where())
    for callee in ("finalize", "visit_statement"):
        cs = ffs.calls_to("FunctionInfo::" + callee)
        ctx.ob("R19.5", "segments:%s?" % callee, bool(cs) and all(check_guard(
            ffs, CallResult("FunctionInfo::" + callee, "Break"), bypass="none").ok for _ in [0]),
            "jump-outside-function checks are propagated", ffs.where())
    cbs = F.find1(seg + "compute_bytecode_segment_lengths")
    # the statement -> offset conversion, wherever it sits among the routines of the module that
    # compute_bytecode_segment_lengths uses (a helper, a closure, or inline)
    scope2, todo = [], [cbs]
    while todo:
        f = todo.pop()
        if f in scope2:
            continue
        scope2.append(f)
        todo += F.closures_of(f)
        for c in f.calls():
            g2 = F.fns.get(c.path)
            if g2 is not None and g2.body and c.path.startswith(seg) and g2 not in scope2:
                todo.append(g2)
    reads = set()
    for f in scope2:
        for _, _, st in f.stmts():
            if st[0] == "a":
                for p in rvalue_places(st[2]):
                    fl_ = place_fields(p)
                    if "sierra_statement_info" in fl_ or "start_offset" in fl_ or "end_offset" in fl_:
                        reads.update(fl_)
        for c in f.calls():
            for a in c.args:
                if op_place(a) is not None:
                    reads.update(x for x in place_fields(op_place(a)) if x in ("start_offset", "end_offset", "sierra_statement_info"))
    ctx.ob("R19.5", "segments:offset<-start_offset", "start_offset" in reads and "end_offset" not in reads,
           "segment offsets use start_offset", cbs.where())
    g("R19.5", "segments:find_functions_segments?", cbs, CallResult("find_functions_segments", "Break"), bypass="none")

    ctx.floor("C19 obligations", len(ctx.obligations), 28)
    _controls(ctx, F, ids, proto)


def _result_propagated(fn, c):
    """The Result of the call is not dropped: it flows to the function's return value (`?`, return)."""
    fl = fn.flows_to(place_local(c.dest))
    return 0 in fl or any(x.name() in ("branch", "from_residual") and any(op_local(a) in fl | {place_local(c.dest)} for a in x.args) for x in fn.calls())


def _is_len_switch(fn, bb, marker):
    """A switch on the length of a slice deriving from `marker` (slice patterns compare the length)."""
    t = fn.blocks[bb]["t"]
    l = op_local(t[1])
    info, _ = bool_condition(fn, bb)
    toks = set()
    if l is not None:
        toks = prov(fn, l, 10)
    if info and info[0] == "bin":
        toks |= op_prov(fn, info[2], 10) | op_prov(fn, info[3], 10)
    return marker in toks and ("op:PtrMetadata" in toks or "c:len" in toks or "c:as_slice" in toks)


def _controls(ctx, F, ids, proto):
    # a consistent-but-wrong reorder of two builtins must be caught by the protocol table
    swapped = list(ids)
    if len(swapped) >= 9:
        swapped[7], swapped[8] = swapped[8], swapped[7]
    ctx.control("swapped AddMod/MulMod differs from the protocol order", [snake(i) for i in swapped] != proto[:-2])
    ctx.control("snake-case conversion", snake("SegmentArena") == "segment_arena" and snake("EcOp") == "ec_op")
