"""C07 - compile-time evaluation agrees with run-time (clause: no compile-time arithmetic result
becomes a constant without passing the type-range validation / felt canonicalisation)."""
import os
from collections import deque

from .guards import (Cmp, CallResult, check_guard, prov, op_prov, bool_condition, bool_edge_value, switch_edges,
                     ok_block_after, blocks_constructing, succ_for_value)
from .lib import fn_key, op_local, op_const, place_local, last_seg, AnchorError

EXPLANATION = (
    "Decides the structural clause of C07 'an expression that would overflow, divide by zero or fail a conversion "
    "is never silently given a value at compile time': (R7.1) in the semantic const evaluator every ConstValue "
    "built from a BigInt arithmetic result is dominated by the Ok edge of validate_literal on that value, or is "
    "canonicalised with canonical_felt252 on the felt252 branch; (R7.2) division and remainder are reached only "
    "after the divisor's is_zero test whose true edge reports DivisionByZero (reachability with correlated "
    "`id == self.<op>_fn` predicates); (R7.3) in the lowering const folder every folded felt252 result passes "
    "canonical_felt252 / field_div, and every folded checked-integer result passes TypeRange::normalized with the "
    "arm selected from its result; other folded arithmetic is in the reasoned table. Agreement of the BigInt "
    "arithmetic with the libfuncs on values (division rounding, remainder sign) is not decided.")
ASSUMPTIONS = ["validate_literal implements the type ranges correctly", "canonical_felt252 reduces modulo the prime"]
EXHAUSTIVE = True
CRATES = ["cairo_lang_semantic", "cairo_lang_lowering"]
ARITH = {"c:add", "c:sub", "c:mul", "c:div", "c:rem", "c:neg", "c:bitand", "c:bitor", "c:bitxor", "c:div_rem", "c:shl", "c:shr",
         "c:pow", "c:add_assign", "c:sub_assign", "c:mul_assign"}
TABLE = os.path.join(os.path.dirname(__file__), "..", "tables", "c07_exceptions.tsv")


def load_table():
    rows = {}
    if os.path.exists(TABLE):
        for line in open(TABLE):
            if line.strip() and not line.startswith("#"):
                p = line.rstrip("\n").split("\t")
                rows[p[0]] = p[1] if len(p) > 1 else ""
    return rows


def correlated_reach(fn, start, targets, avoid, key_of):
    """Reachability from `start` to any block in `targets` avoiding `avoid`, where switches on the same
    predicate key must take the same edge everywhere on a path. key_of(bb) -> hashable or None."""
    targets = set(targets)
    seen = set()
    dq = deque([(start, frozenset())])
    while dq:
        bb, asg = dq.popleft()
        if bb in avoid or (bb, asg) in seen:
            continue
        seen.add((bb, asg))
        if bb in targets:
            return True
        t = fn.blocks[bb]["t"]
        if t[0] == "switch":
            key = key_of(bb)
            d = dict(asg)
            for s in fn.succ(bb):
                if fn.is_unreachable_block(s):
                    continue
                if key is not None:
                    v = bool_edge_value(fn, bb, s)
                    if key in d and d[key] != v:
                        continue
                    a2 = frozenset(list(asg) + [(key, v)]) if key not in d else asg
                    dq.append((s, a2))
                else:
                    dq.append((s, asg))
        else:
            for s in fn.succ(bb):
                dq.append((s, asg))
    return False


def run(ctx):
    F = ctx.load(CRATES)
    _struct_ctor_order(ctx, F)
    _const_call_gate(ctx, F)
    exc = load_table()
    used = set()
    SEM = "cairo_lang_semantic::items::constant::"
    efc = F.find1(SEM + "ConstantEvaluateContext", name="evaluate_function_call")
    ctx.analysed(efc)

    # ---------------- R7.1 results are validated
    n_sites = 0
    vl = [c for c in efc.calls() if c.name() == "validate_literal"]
    cf = [c for c in efc.calls() if c.name() == "canonical_felt252"]
    ords = {}
    sites = []
    for c in efc.calls():
        if c.name() == "from_int" and "ConstValueId" in c.path:
            sites.append(("from_int", c.bb, c.args[-1], c.line))
    for i, j, st in efc.stmts():
        if st[0] == "a" and st[2][0] == "agg" and st[2][1] == "adt" and st[2][2].endswith("ConstValue") and st[2][4] == "Int":
            sites.append(("ConstValue::Int", i, st[2][3][0], st[3]))
    for kind, bb, valop, line in sites:
        toks = op_prov(efc, valop, 12)
        if not (toks & ARITH):
            continue
        n_sites += 1
        ords[kind] = ords.get(kind, 0) + 1
        key = "evaluate_function_call|%s#%d" % (kind, ords[kind])
        vloc = op_local(valop)
        origin = _origins(efc, vloc)
        ok = False
        how = ""
        if "c:canonical_felt252" in toks:
            ok, how = True, "canonicalised with canonical_felt252"
        else:
            for v in vl:
                okb = ok_block_after(efc, v)
                # validate_literal(db, ty, &value): the validated value shares an origin with this one
                vo = _origins(efc, op_local(v.args[-1]))
                if okb is not None and efc.dominates(okb, bb) and (vo & origin):
                    ok, how = True, "dominated by the Ok edge of validate_literal at L%s on the same value" % v.line
        msg = "arithmetic result becomes a constant: %s" % (how or "NOT validated against the type range")
        if not ok and key in exc:
            used.add(key)
            ok = True
            msg += " [exception: %s]" % exc[key]
        ctx.ob("R7.1", key, ok, msg, efc.where(line))
    ctx.floor("arithmetic results turned into constants (semantic evaluator)", n_sites, 3)
    # the felt branch is selected by the type test `expr.ty == self.felt252`
    ok = False
    for bb, t in efc.switches():
        info, flip = bool_condition(efc, bb)
        if info and info[0] == "call" and info[1].name() in ("eq", "ne"):
            toks = set()
            for a in info[1].args:
                toks |= op_prov(efc, a, 6)
            if "f:felt252" in toks and "f:ty" in toks and cf:
                t_succ = [s for s in efc.succ(bb) if (bool_edge_value(efc, bb, s) ^ flip) == (info[1].name() == "eq")]
                ok = any(efc.dominates(s, c.bb) for s in t_succ for c in cf)
    ctx.ob("R7.1", "evaluate_function_call:felt-branch-selected-by-type", ok,
           "canonical_felt252 is applied exactly on the `expr.ty == felt252` edge; every other type goes to validate_literal", efc.where())

    # ---------------- R7.5 one rounding family for every division of constants
    # Run-time `/` and `%` are the two projections of DivRem::div_rem (corelib by_div_rem), which truncates toward zero;
    # both evaluators compute div_rem with Integer::div_rem (truncating).  Every other quotient / remainder computed on
    # constants must come from the same family, otherwise `-7 / 2` differs between compile time and run time.
    FAMILY = {"div": "truncating", "rem": "truncating", "div_rem": "truncating", "checked_div": "truncating", "checked_rem": "truncating",
              "div_assign": "truncating", "rem_assign": "truncating", "wrapping_div": "truncating", "wrapping_rem": "truncating",
              "div_floor": "flooring", "mod_floor": "flooring", "div_mod_floor": "flooring",
              "div_euclid": "euclidean", "rem_euclid": "euclidean", "checked_div_euclid": "euclidean", "checked_rem_euclid": "euclidean",
              "div_ceil": "ceiling", "div_rem_euclid": "euclidean"}
    numeric = ("BigInt", "bigint", "num_integer", "BigUint", "core::ops::arith::Div", "core::ops::arith::Rem", "i128", "u128", "i64", "u64", "isize", "usize")
    n_div = 0
    ords = {}
    for mod, what in (("cairo_lang_semantic::items::constant::", "semantic constant evaluator"),
                      ("cairo_lang_lowering::optimizations::const_folding::", "lowering const folder")):
        for p, g in sorted(F.fns.items()):
            if not g.body or not (p.startswith(mod) or p.startswith("<" + mod)):
                continue
            for c in g.calls():
                nm = c.name()
                if nm not in FAMILY or not any(x in c.path or any(x in ga for ga in c.gargs) for x in numeric):
                    continue
                # divisions of machine integers that are not constants of the program (sizes, indices) are not values
                tys = [g.local_ty(op_local(a)) or "" for a in c.args if op_local(a) is not None]
                if not any("BigInt" in t or "BigUint" in t for t in tys) and "Big" not in c.path:
                    continue
                n_div += 1
                ords[(last_seg(g.root), nm)] = ords.get((last_seg(g.root), nm), 0) + 1
                fam = FAMILY[nm]
                ctx.ob("R7.5", "%s|%s#%d" % (last_seg(g.root), nm, ords[(last_seg(g.root), nm)]), fam == "truncating",
                       "%s: `%s` on constants is %s division%s" % (what, nm, fam, "" if fam == "truncating" else
                                                                     " - run time (DivRem::div_rem and its projections `/`, `%`) truncates toward zero, so the results differ for operands of opposite sign"),
                       c.where())
    ctx.floor("quotient / remainder computations on constants (both evaluators)", n_div, 4)

    # ---------------- R7.7 the value whose range is tested was computed exactly
    # validate_literal / TypeRange::normalized / canonical_felt252 classify a value as in range, below or above.  They
    # can only do that if the value is the exact mathematical result: arithmetic on BigInt.  A result that went through
    # fixed-width machine arithmetic (wrapping_*, overflowing_*, saturating_*, `+` on i128 ...) has already wrapped, so an
    # overflowing 128-bit operation is classified as in range.
    PRIM = ("i8", "i16", "i32", "i64", "i128", "isize", "u8", "u16", "u32", "u64", "u128", "usize")

    def inexact_ops(fn, start_locals, depth=0, seen=None):
        seen = seen if seen is not None else set()
        out = []
        src = set()
        for l in start_locals:
            src |= fn.derives_from(l) | {l}
        for c in fn.calls():
            if place_local(c.dest) not in src:
                continue
            nm = c.name()
            if nm.startswith(("wrapping_", "overflowing_", "saturating_", "unchecked_")):
                out.append(("%s" % nm, c.where()))
            g_ = F.fns.get(c.path)
            if g_ is not None and g_.body and g_.crate == fn.crate and depth < 2 and g_.path not in seen and nm not in ("normalized", "validate_literal"):
                seen.add(g_.path)
                out += inexact_ops(g_, [0], depth + 1, seen)
                for cl in F.closures_of(g_):
                    out += inexact_ops(cl, [0], depth + 1, seen)
        for _, _, st in fn.stmts():
            if st[0] == "a" and place_local(st[1]) in src and st[2][0] == "bin" and st[2][1] in ("Add", "Sub", "Mul", "AddWithOverflow", "SubWithOverflow", "MulWithOverflow",
                                                                                              "AddUnchecked", "SubUnchecked", "MulUnchecked", "Shl", "ShlUnchecked"):
                tys = [fn.local_ty(op_local(o)) for o in (st[2][2], st[2][3]) if op_local(o) is not None]
                if any(t in PRIM for t in tys) and not all(t == "usize" for t in tys if t):
                    out.append(("%s on %s" % (st[2][1], [t for t in tys if t in PRIM][0]), fn.where(st[3])))
        return out
    n_rt = 0
    ordr = {}
    for mod in ("cairo_lang_semantic::items::constant::", "cairo_lang_lowering::optimizations::const_folding::"):
        for p, g in sorted(F.fns.items()):
            if not g.body or not (p.startswith(mod) or p.startswith("<" + mod)):
                continue
            for c in g.calls():
                if c.name() not in ("validate_literal", "normalized", "canonical_felt252") or not c.args:
                    continue
                val = c.args[-1] if c.name() != "normalized" else (c.args[1] if len(c.args) > 1 else c.args[-1])
                vl_ = op_local(val)
                if vl_ is None:
                    continue
                n_rt += 1
                bad = inexact_ops(g, [vl_])
                k_ = "%s|%s" % (last_seg(g.root), c.name())
                ordr[k_] = ordr.get(k_, 0) + 1
                ctx.ob("R7.7", "%s#%d" % (k_, ordr[k_]), not bad,
                       "the value handed to %s is computed with exact (BigInt) arithmetic" % c.name() if not bad else
                       "the value handed to %s went through fixed-width arithmetic (%s): it has already wrapped when its range is tested, so an "
                       "overflow is classified as an in-range value (or the reverse)" % (c.name(), "; ".join("%s at %s" % b for b in bad[:3])), c.where())
    ctx.floor("range tests of computed constants (both evaluators)", n_rt, 6)

    # ---------------- R7.6 a remainder is computed together with its quotient, and the quotient is validated
    # Run-time `%` is the second component of DivRem::div_rem, which fails when the quotient does not fit the type
    # (signed MIN % -1).  A compile-time remainder must therefore come from a div_rem whose quotient is validated.
    n_rem = 0
    for c in efc.calls():
        nm = c.name()
        if nm in ("rem", "mod_floor", "rem_euclid", "checked_rem") and ("BigInt" in c.path or "bigint" in c.path or "num_integer" in c.path
                                                                          or any("BigInt" in ga for ga in c.gargs)):
            n_rem += 1
            ctx.ob("R7.6", "evaluate_function_call|%s-without-quotient" % nm, False,
                   "the remainder is computed by `%s` alone: at run time `%%` is DivRem::div_rem, which fails when the quotient overflows "
                   "(MIN %% -1), but no quotient exists here to be validated - the constant gets a value where run time panics" % nm, c.where())
        if nm in ("div_rem", "div_mod_floor", "div_rem_euclid"):
            n_rem += 1
            fl = efc.flows_to(place_local(c.dest))
            validated = [v for v in vl if op_local(v.args[-1]) in fl and ok_block_after(efc, v) is not None]
            ctx.ob("R7.6", "evaluate_function_call|%s-quotient-validated#%d" % (nm, n_rem), bool(validated),
                   "a result of this %s is passed to validate_literal before the components become constants" % nm if validated else
                   "no component of this %s is validated against the type range (signed MIN / -1 overflows)" % nm, c.where())
    ctx.floor("remainder computations in the semantic evaluator", n_rem, 1)

    # ---------------- R7.2 division guarded by the zero test
    divs = [c for c in efc.calls() if c.name() in FAMILY and ("BigInt" in c.path or "bigint" in c.path or "num_integer" in c.path
                                                                                         or any("BigInt" in ga for ga in c.gargs))]
    ctx.floor("division/remainder sites (semantic evaluator)", len(divs), 2)
    dz = blocks_constructing(efc, "SemanticDiagnosticKind", "DivisionByZero")
    zsw = None
    for bb, t in efc.switches():
        info, flip = bool_condition(efc, bb)
        if info and info[0] == "call" and info[1].name() == "is_zero":
            t_succ = [s for s in efc.succ(bb) if (bool_edge_value(efc, bb, s) ^ flip) is True]
            if any(set(dz) & (efc.reachable_blocks(s, avoid={bb}) | {s}) for s in t_succ):
                zsw = bb

    def key_of(bb):
        info, flip = bool_condition(efc, bb)
        if info and info[0] == "call" and info[1].name() in ("eq", "ne"):
            toks = set()
            for a in info[1].args:
                toks |= op_prov(efc, a, 5)
            fns = sorted(x for x in toks if x.startswith("f:") and x.endswith("_fn"))
            if len(fns) == 1:
                return fns[0]
        return None
    if zsw is None or not dz:
        ctx.ob("R7.2", "evaluate_function_call:is_zero=>DivisionByZero", False, "zero-divisor test reporting DivisionByZero not found", efc.where())
    else:
        r = check_guard(efc, CallResult("is_zero", True), sinks=set(dz), bypass="none")
        ctx.ob("R7.2", "evaluate_function_call:is_zero=>DivisionByZero", r.ok, r.msg, efc.where(r.line))
        ordz = {}
        for c in sorted(divs, key=lambda c: (c.name(), c.line)):
            ordz[c.name()] = ordz.get(c.name(), 0) + 1
            bypass = correlated_reach(efc, 0, {c.bb}, {zsw} | set(dz), key_of)
            key = "evaluate_function_call:%s#%d-after-zero-test" % (c.name(), ordz[c.name()])
            ok = not bypass
            msg = ("every feasible path to the %s passes the divisor's is_zero test" % c.name() if not bypass else
                   "the %s is reachable without the zero-divisor test" % c.name())
            if not ok and key in exc:
                used.add(key)
                ok = True
                msg += " [exception: %s]" % exc[key]
            ctx.ob("R7.2", key, ok, msg, c.where())

    # ---------------- R7.3 lowering const folding
    CF = "cairo_lang_lowering::optimizations::const_folding::"
    hsc = F.find1(CF + "ConstFoldingContext", name="handle_statement_call")
    ctx.analysed(hsc)
    n_fold = 0
    ords = {}
    group = [hsc] + F.closures_of(hsc)
    for g in group:
        for c in g.calls():
            if c.name() != "propagate_const_and_get_statement":
                continue
            toks = op_prov(g, c.args[1], 14)
            arith = sorted(toks & ARITH)
            if not arith:
                continue
            n_fold += 1
            k = "+".join(a[2:] for a in arith)
            ords[k] = ords.get(k, 0) + 1
            key = "handle_statement_call|fold:%s#%d" % (k, ords[k])
            ok = "c:canonical_felt252" in toks or "c:field_div" in toks
            msg = "folded value (%s) is %s" % (k, "canonicalised (canonical_felt252 / field_div)" if ok else "NOT canonicalised or range-normalised")
            if not ok and key in exc:
                used.add(key)
                ok = True
                msg += " [exception: %s]" % exc[key]
            ctx.ob("R7.3", key, ok, msg, c.where())
    ctx.floor("folded arithmetic results (handle_statement_call)", n_fold, 4)
    heb = F.find1(CF + "ConstFoldingContext", name="handle_extern_block_end")
    ctx.analysed(heb)
    norm = [c for g in [heb] + F.closures_of(heb) for c in g.calls() if c.name() == "normalized"]
    ctx.ob("R7.3", "handle_extern_block_end:normalized", len(norm) >= 2,
           "checked integer folds go through TypeRange::normalized (%d sites)" % len(norm), heb.where())
    for n_, c in enumerate(norm):
        g = c.fn
        # the arm (branch index / InRange test) is selected from the normalisation result
        dl = place_local(c.dest)
        sel = False
        for bb, t in g.switches():
            info, _ = bool_condition(g, bb)
            if info and info[0] == "disc" and info[2].endswith("NormalizedResult") and dl in g.derives_from(place_local(info[1])):
                sel = True
        ctx.ob("R7.3", "handle_extern_block_end:arm-from-normalized#%d" % (n_ + 1), sel,
               "the taken arm is selected by matching on the NormalizedResult", c.where())
    # ---------------- R7.4 felt252 inputs of a downcast are re-centred before the range test
    ecf = F.find1(SEM + "ConstantEvaluateContext", name="evaluate_const_function_call")
    for fn, anchor_name, label in ((heb, "normalized", "lowering const folder"), (ecf, None, "semantic const evaluator")):
        ctx.analysed(fn)
        group = [fn] + F.closures_of(fn)
        found = False
        for g in group:
            fd = [c for c in g.calls() if c.name() == "felt252_for_downcast"]
            if not fd:
                continue
            for c in fd:
                found = True
                # the felt test: `ty == self.felt252`
                felt_true = []
                for bb, t in g.switches():
                    info, flip = bool_condition(g, bb)
                    if info and info[0] == "call" and info[1].name() in ("eq", "ne"):
                        toks = set()
                        for a in info[1].args:
                            toks |= op_prov(g, a, 6)
                        if "f:felt252" in toks and g.dominates(bb, c.bb):
                            want = info[1].name() == "eq"
                            felt_true = [(bb, s) for s in g.succ(bb) if (bool_edge_value(g, bb, s) ^ flip) == want]
                # where the value meets the range: normalized(..) or a comparison with the range bounds
                if anchor_name:
                    anchors = [x.bb for x in g.calls() if x.name() == anchor_name and g.dominates(c.bb, x.bb) or
                               (x.name() == anchor_name and x.bb in g.reachable_blocks(c.bb))]
                else:
                    anchors = [x.bb for x in g.calls() if x.name() in ("ge", "le", "lt", "gt") and x.bb in g.reachable_blocks(c.bb) and
                               any(tk in ("f:min", "f:max") for a in x.args for tk in op_prov(g, a, 6))]
                ok = bool(felt_true) and bool(anchors) and all(g.must_pass(s, anchors, {c.bb}) for _, s in felt_true)
                ctx.ob("R7.4", "%s:felt-input-recentred" % fn.name, ok,
                       "%s: on the `input type == felt252` edge every path to the range test passes felt252_for_downcast "
                       "(felt tests %d, range anchors %d)" % (label, len(felt_true), len(anchors)), c.where())
        if not found:
            ctx.ob("R7.4", "%s:felt-input-recentred" % fn.name, False, "%s: felt252_for_downcast is no longer applied" % label, fn.where())
    for k in sorted(set(exc) - used):
        ctx.ob("R7.x", "stale:" + k, False, "exception row no longer matches", TABLE)
    _eq_ne_agree(ctx, F, efc)
    _controls(ctx, F, efc)


def _origins(fn, l, depth=6):
    """Locals a reference/copy chain leads back to (stops at calls)."""
    out = set()
    if l is None:
        return out
    stack = [(l, 0)]
    while stack:
        x, d = stack.pop()
        if x in out or d > depth:
            continue
        out.add(x)
        for df in fn.defs().get(x, []):
            if df[0] == "stmt" and df[3][0] in ("use", "ref", "cast"):
                from .lib import rvalue_places
                for p in rvalue_places(df[3]):
                    stack.append((place_local(p), d + 1))
    return out


def _eq_ne_agree(ctx, F, efc):
    """R7.10: `a != b` in a constant is the negation of `a == b`.  The evaluator recognises the two trait functions by comparing
    the called function with its `eq_fn` / `ne_fn` fields; the `==` arm decides by a value comparison of the two constant
    arguments (a felt252 constant keeps the spelling of its literal, so equal values can have different interned ids).  Sibling
    agreement: the workspace routines the `!=` arm calls are exactly those the `==` arm calls - the arms differ by a negation
    only.  An arm that compares something else (the interned ids, seed C07-5) disagrees with `==` and with run time."""
    arms = {}
    for bb, t in efc.switches():
        info, flip = bool_condition(efc, bb)
        if not info or info[0] != "call" or info[1].name() not in ("eq", "ne") or len(info[1].args) != 2:
            continue
        toks = set()
        for a in info[1].args:
            toks |= set(op_prov(efc, a, 10))
        which = [w for w in ("eq_fn", "ne_fn") if ("f:" + w) in toks]
        if len(which) != 1:
            continue
        want = (info[1].name() == "eq") ^ flip
        t_succ = [s for s in efc.succ(bb) if bool_edge_value(efc, bb, s) is want]
        f_succ = [s for s in efc.succ(bb) if bool_edge_value(efc, bb, s) is (not want)]
        if len(t_succ) != 1 or len(f_succ) != 1:
            continue
        region = efc.reachable_blocks(t_succ[0], avoid=f_succ)
        calls = set()
        for c in efc.calls():
            if c.bb in region and c.path.startswith("cairo_lang_"):
                calls.add(strip_generics_local(c.path))
        arms[which[0]] = (calls, bb)
    found = set(arms) == {"eq_fn", "ne_fn"}
    ctx.ob("R7.10", "evaluate_function_call:eq/ne-arms", found,
           "the `==` and `!=` arms are selected by comparisons with the fields eq_fn / ne_fn" if found else
           "arms selected by eq_fn / ne_fn not found: %s" % sorted(arms), efc.where())
    if not found:
        return
    ce, cn = arms["eq_fn"][0], arms["ne_fn"][0]
    ok = ce == cn and bool(ce)
    ctx.ob("R7.10", "evaluate_function_call:ne==not-eq", ok,
           "both arms decide through %s" % sorted(last_seg(x) for x in ce) if ok else
           "the `!=` arm calls %s, the `==` arm %s: `!=` is not the negation of `==` (a value comparison on one side, something "
           "else - e.g. the interned ids - on the other)" % (sorted(last_seg(x) for x in cn), sorted(last_seg(x) for x in ce)),
           efc.where())


def strip_generics_local(p):
    from .lib import strip_generics
    return strip_generics(p)


def _controls(ctx, F, efc):
    import copy
    from .lib import Fn
    d = copy.deepcopy(efc.d)
    n = 0
    for bl in d["body"]["blocks"]:
        t = bl["t"]
        if t[0] == "call" and t[1].get("path", "").endswith("validate_literal"):
            t[1]["path"] = t[1]["path"].replace("validate_literal", "validate_nothing")
            n += 1
    m = Fn(d, efc.crate)
    vl = [c for c in m.calls() if c.name() == "validate_literal"]
    ctx.control("validation removed from the const evaluator", n >= 2 and not vl)


def _struct_ctor_order(ctx, F):
    """R7.8: whoever turns the members of a struct constructor expression into an ordered sequence orders them by the
    declaration of the struct, not by the order they were written in.

    `ExprStructCtor::members` is in source order (`S { b: 2, a: 1 }`); the run-time path (`lower_expr_struct_ctor`) builds
    the value by iterating `concrete_struct_members` and looking each written member up by id.  The compile-time
    evaluator has to produce the same member order.  Rule: in every function (with its closures) that reads the
    `members` field of an `ExprStructCtor`, a `collect` / `from_iter` into a `Vec` whose *driving* iterator (the receiver
    chain, not what its closures look things up in) comes from that field must also come from
    `concrete_struct_members`."""
    from .lib import place_proj, rvalue_places, rvalue_operands, op_place

    def reads_members(f):
        for i, j, st in f.stmts():
            if st[0] != "a":
                continue
            for p in rvalue_places(st[2]):
                for e in place_proj(p):
                    if isinstance(e, list) and e[0] == "f" and e[2] == "members" and len(e) > 3 and str(e[3]).endswith("ExprStructCtor"):
                        return True
        return False

    def driver(f, op, limit=600):
        """(call names, reads ExprStructCtor.members?) on the receiver chain of an iterator expression"""
        names, hit, todo, seen = set(), False, [op], set()
        while todo and len(seen) < limit:
            o = todo.pop()
            pl = op_place(o)
            if pl is None:
                continue
            for e in place_proj(pl):
                if isinstance(e, list) and e[0] == "f" and e[2] == "members" and len(e) > 3 and str(e[3]).endswith("ExprStructCtor"):
                    hit = True
            l = place_local(pl)
            if l in seen:
                continue
            seen.add(l)
            if 1 <= l <= f.argc and f.kind == "Closure" and l == 1:
                pass
            for d in f.defs().get(l, []):
                if d[0] == "stmt":
                    rv = d[3]
                    if rv[0] == "ref":
                        todo.append(["c", rv[1]])
                    elif rv[0] == "agg" and rv[1] == "closure":
                        continue
                    else:
                        todo.extend(rvalue_operands(rv))
                elif d[0] == "call":
                    c = d[2]
                    names.add(c.name())
                    if c.name() == "concrete_struct_members":
                        continue
                    if c.name() in ("zip", "zip_eq", "chain", "izip", "interleave", "zip_longest"):
                        todo.extend(c.args)
                    elif c.args:
                        todo.append(c.args[0])
        return names, hit
    n_fn = n_seq = n_decl = 0
    for p, f in sorted(F.fns.items()):
        if not f.body or f.kind == "Closure" or f.d.get("derived"):
            continue
        fs = [f] + F.closures_of(f)
        if not any(reads_members(g) for g in fs):
            continue
        seqs = []
        for g in fs:
            for c in g.calls():
                if c.name() not in ("collect", "collect_vec", "from_iter") or not c.args:
                    continue
                dty = g.local_ty(place_local(c.dest)) or ""
                if "alloc::vec::Vec" not in dty or "HashMap" in dty or "HashSet" in dty:
                    continue
                names, hit = driver(g, c.args[-1] if c.name() == "from_iter" else c.args[0])
                seqs.append((g, c, names, hit))
        if not seqs:
            continue
        n_fn += 1
        ctx.analysed(f)
        k = 0
        for g, c, names, hit in seqs:
            by_decl = "concrete_struct_members" in names
            n_decl += 1 if by_decl else 0
            if not hit and not by_decl:
                continue
            k += 1
            n_seq += 1
            ok = by_decl or not hit
            ctx.ob("R7.8", "%s|sequence#%d" % (fn_key(p), k), ok,
                   "the sequence is driven by the declared members (concrete_struct_members); the written members are only looked up" if ok else
                   "a sequence is built in the order the members of the struct constructor were written (ExprStructCtor::members drives the "
                   "iterator, concrete_struct_members does not): `S { b: 2, a: 1 }` and `S { a: 1, b: 2 }` evaluate to different values, "
                   "unlike at run time", c.where())
    ctx.floor("functions that order the members of a struct constructor", n_fn, 2)
    ctx.floor("sequences driven by the declared member order", n_decl, 2)


def _const_call_gate(ctx, F):
    """R7.9: which functions may be called in a constant.

    A call in a const context is evaluated by the compiler's own model of the callee (arithmetic, comparisons, a handful of
    traits evaluated structurally), never by the callee's body unless it is a `const fn`.  So the gate `is_function_const`
    may say yes only for: the panic function, a function whose signature is `const`, or a function of an impl that lives in
    the core crate and implements one of the registered const traits.  Every `true` the gate returns must stand on one of
    these three tests; a user impl that is let through is evaluated by a model that is not its body."""
    fs = [f for f in F.find("cairo_lang_semantic::items::constant::ConstantEvaluateContext", name="is_function_const") if f.body]
    if len(fs) != 1:
        raise AnchorError("is_function_const resolves to %d functions" % len(fs))
    f = fs[0]
    ctx.analysed(f)
    from .lib import rvalue_operands
    const_closures = [g for g in F.closures_of(f) if g.body and "f:is_const" in prov(g, 0, 8)]
    tests = []          # (switch bb, successor taken when the two sides are EQUAL / the flag is true, tokens)
    for bb, t in f.switches():
        info, flip = bool_condition(f, bb)
        if not info or info[0] != "call" or info[1].name() not in ("eq", "ne"):
            continue
        c = info[1]
        toks = set()
        for a in c.args:
            toks |= op_prov(f, a, 12)
        for s_ in f.succ(bb):
            v = bool_edge_value(f, bb, s_)
            if v is None:
                continue
            holds = (v ^ flip)                       # the call returned true on this edge
            equal = holds if c.name() == "eq" else (not holds)
            if equal:
                tests.append((bb, s_, toks))

    # a plain boolean flag tested directly (`if signature.is_const`): the edge on which it is true
    for bb, t in f.switches():
        l = op_local(t[1])
        if l is None or (f.local_ty(l) or "") != "bool":
            continue
        info, flip = bool_condition(f, bb)
        if info and info[0] == "call" and info[1].name() in ("eq", "ne"):
            continue
        toks = prov(f, l, 8)
        for s_ in f.succ(bb):
            v = bool_edge_value(f, bb, s_)
            if v is not None and (v ^ flip):
                tests.append((bb, s_, toks))

    def reasons(block):
        out = set()
        for bb, s_, toks in tests:
            if f.dominates(s_, block) and s_ != bb:
                if "f:panic_with_felt252" in toks:
                    out.add("the panic function")
                if "f:is_const" in toks or ("c:map" in toks and const_closures):
                    out.add("a const signature")
                if "c:owning_crate" in toks and "c:core_crate" in toks:
                    out.add("an impl of the core crate")
        return out
    n = 0
    for i, j, st in f.stmts():
        if st[0] != "a" or place_local(st[1]) != 0 or not isinstance(st[1], int):
            continue
        rv = st[2]
        k = op_const(rv[1]) if rv[0] == "use" else None
        if k and k[0] == "int" and k[1] == 0:
            continue
        n += 1
        why = reasons(i)
        if k and k[0] == "int":
            ok = bool(why & {"the panic function", "a const signature"})
            msg = "a constant `true` stands on %s" % sorted(why) if ok else \
                "the gate returns `true` on a path that passed neither the panic-function test nor the const-signature test (reasons on the path: %s)" % sorted(why)
        else:
            toks = set()
            for o in rvalue_operands(rv):
                toks |= op_prov(f, o, 10)
            ok = "an impl of the core crate" in why and "f:const_traits" in toks
            msg = "a computed answer is the const-trait lookup of an impl of the core crate" if ok else \
                "a computed answer is returned outside the core-crate test or is not the const-trait lookup (%s)" % sorted(why)
        ctx.ob("R7.9", "is_function_const:yes#%d" % n, ok, msg, f.where(st[3] if len(st) > 3 else None))
    for c in f.calls():
        if place_local(c.dest) == 0 and isinstance(c.dest, int):
            n += 1
            why = reasons(c.bb)
            toks = set()
            for a in c.args:
                toks |= op_prov(f, a, 10)
            ok = "an impl of the core crate" in why and "f:const_traits" in toks and c.name() == "contains"
            ctx.ob("R7.9", "is_function_const:yes#%d" % n, ok,
                   "the answer is the const-trait lookup of an impl of the core crate" if ok else
                   "the answer `%s(..)` is returned outside the core-crate test or is not the const-trait lookup (%s)" % (c.name(), sorted(why)), c.where())
    ctx.floor("ways is_function_const says yes", n, 3)
