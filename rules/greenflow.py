"""Flow-sensitive "handed on" analysis for green values the parser obtained by consuming tokens.

A green node returned by a token-consuming parser routine holds source text that exists nowhere else.  For one
such value (an *origin*: the destination of a call that receives `&mut Parser` and returns a type that carries a
green), the analysis searches the function's control-flow graph for a path from the call to a `return` on which
the value is never *handed on* (passed by value to a call, stored behind a pointer, placed in a container that is
passed on, or moved into the return place).  Such a path drops the text of the tokens the value spans.

The search runs over states (block, taint, facts) where taint is the set of places that hold the value (copies,
conversions, wrappers such as Option / Result / tuples / arrays) and facts are the few value facts needed to
prune infeasible paths that the parser's own idioms create:
  * the variant of a wrapper, learned at a `match` on it (the `None` / `Err` edge holds no green: discharged);
  * booleans stored next to the value in a tuple (`(true, attributes)` .. `if has_attrs`);
  * `is_empty()` of a container holding the value (empty: nothing to lose).
"""
import re

from .lib import op_place, op_local, op_const, place_local, place_proj, last_seg

PARSER_ARG = "mut cairo_lang_parser::parser::Parser"
_GREEN = re.compile(r"Green(Id)?\b")

# calls that return their (by-value) first argument in another shape; the value lives on in the result
TRANSPARENT = {"into", "from", "branch", "ok", "map", "unwrap_or", "unwrap_or_else", "unwrap_or_default", "clone",
               "unwrap", "expect", "into_iter", "collect", "to_vec", "into_boxed_slice", "as_ref"}
# by-reference calls on a container that only inspect it


def mentions_green(ty):
    return bool(_GREEN.search(ty or ""))


def exact_green(ty):
    return mentions_green(ty) and not (ty or "").startswith(("core::", "alloc::", "(", "&", "[", "std::"))


def _split_generics(ty):
    """Top-level generic arguments of `Path<A, B>`."""
    i = ty.find("<")
    if i < 0 or not ty.endswith(">"):
        return []
    out, depth, cur = [], 0, ""
    for ch in ty[i + 1:-1]:
        if ch in "<([":
            depth += 1
        elif ch in ">)]":
            depth -= 1
        if ch == "," and depth == 0:
            out.append(cur.strip())
            cur = ""
        else:
            cur += ch
    if cur.strip():
        out.append(cur.strip())
    return out


def _split_tuple(ty):
    if not (ty.startswith("(") and ty.endswith(")")):
        return None
    return _split_generics("T<" + ty[1:-1] + ">")


def variant_carries(ty, value):
    """Can variant number `value` of wrapper type `ty` hold a green?  None = unknown wrapper."""
    g = [a for a in _split_generics(ty) if not a.startswith("'")]
    if ty.startswith("core::result::Result<") and len(g) == 2:
        return mentions_green(g[value]) if value in (0, 1) else None
    if ty.startswith("core::option::Option<") and len(g) == 1:
        return mentions_green(g[0]) if value == 1 else (False if value == 0 else None)
    if ty.startswith("core::ops::control_flow::ControlFlow<") and len(g) in (1, 2):
        # Continue(C) = 0, Break(B) = 1
        if value == 0:
            return mentions_green(g[1]) if len(g) == 2 else False
        if value == 1:
            return mentions_green(g[0])
    return None


class Origin:
    __slots__ = ("fn", "call", "comp", "ty", "param")

    def __init__(self, fn, call, comp, ty, param=None):
        self.fn, self.call, self.comp, self.ty, self.param = fn, call, comp, ty, param

    def key(self):
        c = "" if self.comp is None else ".%d" % self.comp
        if self.call is None:
            return "param %s%s" % (self.fn.local_name(self.param) or "#%d" % self.param, c)
        return "%s<-%s%s" % (self.fn.local_name(place_local(self.call.dest)) or "_", last_seg(self.call.path), c)

    def line(self):
        return self.fn.line if self.call is None else self.call.line


def param_origins(fn):
    """Green-carrying by-value parameters of a routine that also receives `&mut Parser`."""
    tys = [fn.local_ty(i) for i in range(1, fn.argc + 1)]
    if not any(PARSER_ARG in (t or "") for t in tys):
        return []
    out = []
    # parameters that are called (generic `NewGreen: Fn(..)` callbacks) are code, not green values
    refs = {}
    for _, _, st in fn.stmts():
        if st[0] == "a" and st[2][0] == "ref" and isinstance(st[1], int) and isinstance(st[2][1], int):
            refs[st[1]] = st[2][1]
    called = set()
    for c in fn.calls():
        if last_seg(c.path) in ("call", "call_once", "call_mut") and c.args:
            l = op_local(c.args[0])
            called.add(refs.get(l, l))
    for i, t in enumerate(tys, start=1):
        if i in called:
            continue
        if mentions_green(t) and not t.startswith(("&", "impl ", "fn(", "for<", "unsafe fn(")) and "{closure" not in t:
            out.append(Origin(fn, None, None, t, param=i))
    return out


def origins(fn):
    """Calls in `fn` that consume tokens (receive `&mut Parser`) and return a type carrying a green."""
    out = []
    for c in fn.calls():
        if c.target is None:
            continue
        if not any(PARSER_ARG in (fn.local_ty(op_local(a)) or "") for a in c.args if op_local(a) is not None):
            continue
        dl = place_local(c.dest)
        ty = fn.local_ty(dl)
        if not mentions_green(ty) or place_proj(c.dest):
            continue
        if last_seg(c.path) in TRANSPARENT and c.args and mentions_green(fn.local_ty(op_local(c.args[0])) or ""):
            continue
        comps = _split_tuple(ty)
        if comps:
            for i, t in enumerate(comps):
                if mentions_green(t):
                    out.append(Origin(fn, c, i, t))
        else:
            out.append(Origin(fn, c, None, ty))
    return out


def _first_field(p):
    for e in place_proj(p):
        if isinstance(e, list) and e[0] == "f":
            return e[1]
        if e == "*":
            continue
        if isinstance(e, list) and e[0] == "d":
            return None
    return None


class State:
    __slots__ = ("taint", "refs", "env", "empt", "disc")

    def __init__(self, taint=(), refs=(), env=(), empt=(), disc=()):
        self.taint = dict(taint)   # local -> component index or None (whole)
        self.refs = dict(refs)     # local -> 'g' (ref to a bare green) | 'c' (ref to a container holding it)
        self.env = dict(env)       # (local, comp) -> bool
        self.empt = dict(empt)     # local -> True if "local == true" means the container is empty
        self.disc = dict(disc)     # local -> wrapper local whose discriminant it holds

    def copy(self):
        return State(self.taint, self.refs, self.env, self.empt, self.disc)

    def freeze(self):
        return (frozenset(self.taint.items()), frozenset(self.refs.items()), frozenset(self.env.items()),
                frozenset(self.empt.items()), frozenset(self.disc.items()))

    def holds(self, p):
        """Does place p read (part of) the tracked value?"""
        l = place_local(p)
        if l not in self.taint:
            return False
        comp = self.taint[l]
        if comp is None or not place_proj(p):
            return True
        ff = _first_field(p)
        return ff is None or ff == comp

    def kill(self, l):
        self.taint.pop(l, None)
        self.refs.pop(l, None)
        self.empt.pop(l, None)
        self.disc.pop(l, None)
        for k in [k for k in self.env if k[0] == l]:
            del self.env[k]


SINK, CONT = "sink", "cont"


def _stmt(fn, st, S):
    """Transfer function of one statement; returns SINK when the value is stored away."""
    if st[0] != "a":
        return CONT
    dst, rv = st[1], st[2]
    dl = place_local(dst)
    bare = not place_proj(dst)
    k = rv[0]
    tainted_src = None
    if k == "use":
        p = op_place(rv[1])
        if p is not None:
            b = place_local(p)
            if S.holds(p):
                tainted_src = p
                if not bare:
                    if "*" in place_proj(dst):
                        return SINK                       # stored behind a pointer (parser state, heap)
                    S.taint[dl] = None
                    return CONT
                S.kill(dl)
                # whole-copy of a component-tainted tuple keeps the component; a projection read yields the part
                S.taint[dl] = S.taint[b] if not place_proj(p) else None
                return CONT
            if b in S.refs and "*" in place_proj(p) and bare:
                S.kill(dl)
                if mentions_green(fn.local_ty(dl)):
                    S.taint[dl] = None
                return CONT
            key = (b, _first_field(p) if place_proj(p) else None)
            if bare and key in S.env:
                v = S.env[key]
                S.kill(dl)
                S.env[(dl, None)] = v
                return CONT
            if bare and not place_proj(p) and b in S.empt:
                v = S.empt[b]
                S.kill(dl)
                S.empt[dl] = v
                return CONT
            if bare and not place_proj(p) and b in S.disc:
                v = S.disc[b]
                S.kill(dl)
                S.disc[dl] = v
                return CONT
        if bare:
            S.kill(dl)
        return CONT
    if k == "agg":
        hit = [i for i, o in enumerate(rv[3]) if op_place(o) is not None and S.holds(op_place(o))]
        if rv[1] == "closure" and not hit:
            # a closure that captures the value by reference (green ids are Copy): the closure now stands for it
            hit = [i for i, o in enumerate(rv[3]) if op_place(o) is not None and not place_proj(op_place(o)) and place_local(op_place(o)) in S.refs]
        if bare:
            S.kill(dl)
        if hit:
            if not bare and "*" in place_proj(dst):
                return SINK
            S.taint[dl] = hit[0] if rv[1] == "tuple" and len(hit) == 1 else None
            if rv[1] == "tuple":
                for i, o in enumerate(rv[3]):
                    c = op_const(o)
                    if c and c[0] == "int" and c[1] in (0, 1) and "bool" in (_split_tuple(fn.local_ty(dl)) or [""] * 99)[i:i + 1]:
                        S.env[(dl, i)] = bool(c[1])
        return CONT
    if k == "ref":
        p = rv[1]
        b = place_local(p)
        if bare:
            S.kill(dl)
        if S.holds(p):
            S.refs[dl] = "g" if (exact_green(fn.local_ty(b)) and not place_proj(p)) else "c"
        elif b in S.refs:
            S.refs[dl] = S.refs[b]
        return CONT
    if k == "cast":
        p = op_place(rv[2])
        if bare:
            S.kill(dl)
        if p is not None:
            b = place_local(p)
            if S.holds(p):
                S.taint[dl] = None
            elif b in S.refs:
                S.refs[dl] = S.refs[b]
        return CONT
    if k == "disc":
        b = place_local(rv[1])
        if bare:
            S.kill(dl)
            if b in S.taint and not place_proj(rv[1]):
                S.disc[dl] = b
        return CONT
    if k == "un" and rv[1] == "Not":
        l = op_local(rv[2])
        if bare:
            S.kill(dl)
            if l is not None and (l, None) in S.env:
                S.env[(dl, None)] = not S.env[(l, None)]
            if l is not None and l in S.empt:
                S.empt[dl] = not S.empt[l]
        return CONT
    if bare:
        S.kill(dl)
    return CONT


def is_handing_on(fn, c):
    """Is the callee one that keeps the green it is given?  (constructors of green nodes, containers, and parser
    routines, whose own parameters are origins of the same analysis)"""
    p = c.path
    name = last_seg(p)
    if name == "new_green" and p.startswith(("cairo_lang_syntax::node::", "<")):
        return "constructor"
    if name in ("push", "extend", "insert", "push_back", "extend_from_slice", "append") and ("alloc::vec::Vec" in p or "Extend" in p or "alloc::collections" in p):
        return "container"
    if any(PARSER_ARG in (fn.local_ty(op_local(a)) or "") for a in c.args if op_local(a) is not None):
        return "parser routine"
    if name in ("call", "call_once", "call_mut") and "core::ops::function::Fn" in p:
        return "callback"
    if name == "new_detached_root_with_offset":
        return "root"
    return None


def _call(fn, c, S, log=None):
    """Transfer function of a call; SINK when the value is handed on."""
    byval, byref = [], []
    for i, a in enumerate(c.args):
        p = op_place(a)
        if p is None:
            continue
        b = place_local(p)
        if S.holds(p):
            byval.append(i)
        elif b in S.refs and not place_proj(p):
            byref.append((i, S.refs[b]))
    name = last_seg(c.path)
    dl = place_local(c.dest)
    dty = fn.local_ty(dl)
    bare = not place_proj(c.dest)
    if byval:
        if name in TRANSPARENT and byval == [0] and mentions_green(dty) and bare:
            S.kill(dl)
            S.taint[dl] = None
            return CONT
        if is_handing_on(fn, c):
            return SINK
        if mentions_green(dty) and bare and c.path.startswith(("cairo_lang_parser::", "<cairo_lang_parser::")):
            # a parser helper without `&mut Parser` that maps a green to a green (the whole or a part of it):
            # the value lives on in the result; whether a part drops its siblings is rule R10.8's business
            if log is not None:
                log.add(("green-to-green helper", c.path))
            S.kill(dl)
            S.taint[dl] = None
            return CONT
        if log is not None:
            log.add(("by-value inspection", c.path))
        if bare:
            S.kill(dl)
        return CONT
    if byref:
        kinds = {k for _, k in byref}
        if name in ("is_empty", "is_none", "is_err") and "bool" == dty:
            S.kill(dl)
            S.empt[dl] = True            # true: the wrapper holds no green
            return CONT
        if name in ("is_some", "is_ok") and "bool" == dty:
            S.kill(dl)
            S.empt[dl] = False           # false: the wrapper holds no green
            return CONT
        if name in ("clone", "to_owned", "deref", "as_ref", "borrow", "as_slice", "iter", "index", "get", "first", "last") and mentions_green(dty):
            S.kill(dl)
            if dty.startswith(("&", "core::slice::iter", "core::option::Option<&")):
                S.refs[dl] = "c" if "c" in kinds else "g"
            else:
                S.taint[dl] = None
            return CONT
        if "c" in kinds and is_handing_on(fn, c):
            return SINK
        if log is not None:
            log.add(("by-reference inspection", c.path))
        if bare:
            S.kill(dl)
        return CONT
    if bare:
        S.kill(dl)
    return CONT


def _switch_succ(fn, t, S):
    """[(succ, state or None)]: feasible successors of a switch under the facts of S (None = discharged)."""
    l = op_local(t[1])
    arms = [(v, s) for v, s in t[2]]
    other = t[3]
    out = []
    if l is not None and l in S.disc:
        w = S.disc[l]
        wty = fn.local_ty(w)
        for v, s in arms:
            carries = variant_carries(wty, v)
            out.append((s, None if carries is False else S))
        # `otherwise` stands for the variants not listed
        listed = {v for v, _ in arms}
        rest = [v for v in (0, 1) if v not in listed]
        if rest:
            carries = [variant_carries(wty, v) for v in rest]
            out.append((other, None if all(x is False for x in carries) else S))
        elif variant_carries(wty, 0) is None:
            out.append((other, S))
        return out
    if l is not None and (l, None) in S.env:
        v = int(S.env[(l, None)])
        for av, s in arms:
            if av == v:
                return [(s, S)]
        return [(other, S)]
    if l is not None and l in S.empt:
        true_means_empty = S.empt[l]
        for av, s in arms:
            is_empty = (av == 1) == true_means_empty
            out.append((s, None if is_empty else S))
        listed = {v for v, _ in arms}
        for v in (0, 1):
            if v not in listed:
                is_empty = (v == 1) == true_means_empty
                out.append((other, None if is_empty else S))
        return out
    return [(s, S) for _, s in arms] + [(other, S)]


QUIET_CALLS = TRANSPARENT | {"from_residual", "eq", "ne", "deref", "index", "len", "is_empty"}


def dropped_paths(fn, origin, max_states=40000, log=None):
    """{class: [blocks]}: for every distinct last call before the exit, one path from the origin to a `return` on
    which the value is never handed on.  Empty when the value is handed on along every path."""
    from .lib import Call
    c = origin.call
    S0 = State()
    if c is None:
        S0.taint[origin.param] = origin.comp
        stack = [(0, S0, (0,), "entry")]
    else:
        S0.taint[place_local(c.dest)] = origin.comp
        stack = [(c.target, S0, (c.bb, c.target), "entry")]
    seen = set()
    found = {}
    n = 0
    while stack:
        bb, S, path, last = stack.pop()
        key = (bb, last, S.freeze())
        if key in seen:
            continue
        seen.add(key)
        n += 1
        if n > max_states:
            raise RuntimeError("state limit in %s" % fn.path)
        S = S.copy()
        blk = fn.blocks[bb]
        sunk = False
        for st in blk["s"]:
            if _stmt(fn, st, S) == SINK:
                sunk = True
                break
        if sunk:
            continue
        if not S.taint and not S.refs:
            found.setdefault("overwritten after " + last, list(path))
            continue
        t = blk["t"]
        k = t[0]
        if k == "ret":
            if 0 not in S.taint:
                found.setdefault("return after " + last, list(path))
            continue
        if k == "call":
            cc = Call(fn, bb, t)
            if _call(fn, cc, S, log) == SINK:
                continue
            nm = last_seg(cc.path)
            nl = last if nm in QUIET_CALLS else nm
            if cc.target is not None:
                stack.append((cc.target, S, path + (cc.target,), nl))
            continue
        if k == "switch":
            for s, ns in _switch_succ(fn, t, S):
                if ns is not None:
                    stack.append((s, ns.copy(), path + (s,), last))
            continue
        if k == "goto":
            stack.append((t[1], S, path + (t[1],), last))
            continue
        if k in ("drop", "assert"):
            tgt = t[2] if k == "drop" else t[5]
            if isinstance(tgt, int):
                stack.append((tgt, S, path + (tgt,), last))
            continue
        # unreachable / diverging terminators end the path without a return
    return found


def double_handoffs(fn, origin, max_states=60000):
    """{class: [blocks]}: paths on which the value is handed on twice (two constructors / containers / parser
    routines / the caller receive the same node: its text would occur twice in the tree)."""
    from .lib import Call
    c = origin.call
    S0 = State()
    if c is None:
        S0.taint[origin.param] = origin.comp
        stack = [(0, S0, (0,), None)]
    else:
        S0.taint[place_local(c.dest)] = origin.comp
        stack = [(c.target, S0, (c.bb, c.target), None)]
    seen = set()
    found = {}
    n = 0
    while stack:
        bb, S, path, first = stack.pop()
        key = (bb, first, S.freeze())
        if key in seen:
            continue
        seen.add(key)
        n += 1
        if n > max_states:
            raise RuntimeError("state limit in %s" % fn.path)
        if c is not None and bb == c.bb and len(path) > 2:
            continue        # back at the origin call: a fresh value is produced
        S = S.copy()
        blk = fn.blocks[bb]
        for st in blk["s"]:
            if _stmt(fn, st, S) == SINK:
                if first is not None:
                    found.setdefault("stored after %s" % first, list(path))
                first = first or "store"
        if not S.taint and not S.refs:
            continue
        t = blk["t"]
        k = t[0]
        if k == "ret":
            if 0 in S.taint and first is not None:
                found.setdefault("returned after %s" % first, list(path))
            continue
        if k == "call":
            cc = Call(fn, bb, t)
            S2 = S.copy()
            r = _call(fn, cc, S2, None)
            if r == SINK:
                nm = last_seg(cc.path)
                n_args = sum(1 for a in cc.args if op_place(a) is not None and S.holds(op_place(a)))
                if n_args > 1:
                    found.setdefault("%s receives it %d times" % (nm, n_args), list(path))
                    continue
                if first is not None:
                    found.setdefault("%s after %s" % (nm, first), list(path))
                    continue
                # handed on once; the copy the function still holds may be handed on again
                nf = nm
                S2 = S.copy()
                dl = place_local(cc.dest)
                if not place_proj(cc.dest):
                    S2.kill(dl)
                if cc.target is not None:
                    stack.append((cc.target, S2, path + (cc.target,), nf))
                continue
            if cc.target is not None:
                stack.append((cc.target, S2, path + (cc.target,), first))
            continue
        if k == "switch":
            for s_, ns in _switch_succ(fn, t, S):
                if ns is not None:
                    stack.append((s_, ns.copy(), path + (s_,), first))
            continue
        if k == "goto":
            stack.append((t[1], S, path + (t[1],), first))
            continue
        if k in ("drop", "assert"):
            tgt = t[2] if k == "drop" else t[5]
            if isinstance(tgt, int):
                stack.append((tgt, S, path + (tgt,), first))
            continue
    return found
