"""C03 - results do not depend on hint values (clause: every hint output is pinned by a
constraint-bearing instruction on every generator path and every CASM path; integer-witness
outputs reach a range-check write)."""
import os
import re
from collections import defaultdict

from .casm_abs import Builder, Listing, PathLimit
from .lib import last_seg, strip_generics

EXPLANATION = (
    "Decides the structural clause of C03: in every libfunc builder (functions of "
    "cairo_lang_sierra_to_casm::invocations calling CasmBuilder::add_hint), on every Rust-level path of the "
    "generator and every path of the generated CASM (labels/jumps of the abstract listing), each memory cell "
    "written by a hint is subsequently used by a constraint-bearing instruction before the libfunc's exit: a "
    "real equation (assert between already defined values), a write of a derived value to a builtin buffer, "
    "or the condition of a conditional jump (R3.1); for hints whose outputs are integer witnesses each output "
    "additionally reaches a range-check write directly or through derived values, or is handed on inside a "
    "guarantee (R3.2). If this fails the prover chooses the cell freely. Whether the constraints are "
    "arithmetically sufficient (bounds, wrap-around, which algorithm is sound for which range) is not decided.")
ASSUMPTIONS = [
    "CasmBuilder API semantics as modelled in rules/casm_abs.py (an assert with exactly one undefined participant defines it; with none it is an equation)",
    "range-check pointers are the Var values named *range_check* / rc96 by the builders (naming convention of the invocations module)",
    "helper functions receiving the CasmBuilder are summarised as constraining their Var arguments and are analysed on their own when they contain hints",
]
EXHAUSTIVE = True
CRATES = ["cairo_lang_sierra_to_casm", "cairo_lang_casm"]
EXC = os.path.join(os.path.dirname(__file__), "..", "tables", "c03_exceptions.tsv")

RC_NAME = re.compile(r"range_check|rc96|(^|_)rc($|_)")
ALLOC_HINTS = {"AllocSegment", "AllocConstantSize", "AllocFelt252Dict"}
# hints without a result that the program could depend on
NO_RESULT = {"DebugPrint", "Cheatcode", "SystemCall", "EvalCircuit", "InitSquashData", "Felt252DictEntryInit",
             "Felt252DictEntryUpdate", "AssertLeFindSmallArcs"}
BOOLEAN = {"TestLessThan", "TestLessThanOrEqual", "TestLessThanOrEqualAddress", "ShouldSkipSquashLoop",
           "ShouldContinueSquashLoop", "AssertLeIsFirstArcExcluded", "AssertLeIsSecondArcExcluded"}
WITNESS = {"DivMod", "WideMul128", "SquareRoot", "Uint256DivMod", "Uint512DivModByUint256", "Uint256SquareRoot",
           "U256InvModN", "LinearSplit"}


def load_exc():
    out = {}
    if os.path.exists(EXC):
        for line in open(EXC):
            if line.strip() and not line.startswith("#"):
                p = line.rstrip("\n").split("\t")
                out[p[0]] = p[1] if len(p) > 1 else ""
    return out


def analyse(F, fn):
    """Returns (results, n_paths): results[(kind, ordinal, out_idx)] = dict(used=bool, ranged=bool|None, ...)"""
    B = Builder(F, fn)
    paths = B.enumerate()
    hint_sites = sorted(set(e.site for ev in paths for e in ev if e.kind == "hint"))
    res = {}
    for ev in paths:
        L = Listing(ev)
        rc_vars = set(v for v, nm in B.var_names.items() if nm and RC_NAME.search(nm))
        rc_vars |= set(v for v, o in B.var_origin.items() if o[0] in ("param", "sym") and RC_NAME.search(str(o[1])))
        alloc_out = set(o for o, (i, k) in L.hint_outputs.items() if k in ALLOC_HINTS)
        kind_count = defaultdict(int)
        for i, e in enumerate(ev):
            if e.kind != "hint":
                continue
            kind, n_in = e.hint
            ordinal = hint_sites.index(e.site)
            outs = e.args[n_in:]
            for oi, o in enumerate(outs):
                key = (kind, ordinal, oi)
                if (i, o) in L.preset_outputs:
                    res.setdefault(key, {"used": True, "ranged": True, "paths": 0, "line": e.line, "name": B.var_names.get(o, "?"),
                                          "returned": False, "bad_path": None, "preset": True})["paths"] += 1
                    continue
                D = L.derived_from(o)
                used, ranged = set(), set()
                for j, x in enumerate(ev):
                    if j <= i:
                        continue
                    if x.kind == "jump_nz" and x.args[0] in D:
                        used.add(j)
                        ranged.add(j)      # a flag-like witness: both branches re-verify
                    elif x.kind == "buf_write":
                        buf, val = x.args
                        if val in D and L.definitions.get(j) != val:
                            src = L.origin_closure(buf)
                            if not (src & alloc_out):
                                used.add(j)
                            if src & rc_vars:
                                ranged.add(j)
                    elif x.kind == "helper" and set(x.args) & D:
                        used.add(j)
                        ranged.add(j)
                    elif x.kind == "build" and set(x.args) & D:
                        used.add(j)
                for j, parts in L.equations:
                    if j > i and set(parts) & D:
                        used.add(j)
                        # an equation determines the witness when every other participant is pinned
                        others = [p_ for p_ in parts if p_ not in D]
                        if all(pinned(L, B, p_, rc_vars, alloc_out, ev) for p_ in others):
                            ranged.add(j)
                r = res.setdefault(key, {"used": True, "ranged": True, "paths": 0, "line": e.line,
                                          "name": B.var_names.get(o, "?"), "returned": False, "bad_path": None})
                r["paths"] += 1
                # consumption: the value (or one derived from it) is stored into memory that is handed on
                consumers = set(j for j, x in enumerate(ev) if j > i and x.kind == "buf_write" and x.args[1] in D
                                and L.definitions.get(j) != x.args[1] and j not in used)
                bouts = L.branch_outputs()

                def escapes(blockers):
                    for name, consumed in L.exits_avoiding(i, blockers, consumers):
                        if consumed:
                            return "stored to memory before exit %s" % name
                        if bouts is None:
                            if any(x.kind == "build" and set(x.args) & D for x in ev):
                                return "returned"
                            continue
                        outs_ = bouts.get(name)
                        if outs_ is None:
                            # an exit that is not a declared branch (helper listing): be conservative
                            if set(v for vs_ in bouts.values() for v in vs_) & D:
                                return "returned at exit %s" % name
                            continue
                        if set(outs_) & D:
                            return "returned by branch %s" % name
                    return None
                esc = escapes(used - set(j for j, x in enumerate(ev) if x.kind == "build"))
                if esc:
                    r["used"] = False
                    r["bad_path"] = r["bad_path"] or "%s on a path with %d events" % (esc, len(ev))
                esc2 = escapes(ranged)
                if esc2 and kind == "WideMul128":
                    # exported as a U128MulGuarantee: a returned group holding exactly (lhs, rhs, high, low) of this hint
                    quad = set(e.args)
                    for x in ev:
                        if x.kind == "build" and x.groups:
                            for gl in x.groups.values():
                                for grp in gl:
                                    if len(grp) == 4 and set(grp) == quad:
                                        esc2 = None
                                        r["guarantee"] = True
                if esc2:
                    r["ranged"] = False
                    r["returned"] = r["returned"] or esc2.startswith("returned")
                    r["why"] = esc2
    return res, len(paths)


def analyse_branches(F, fn):
    """R3.3: a conditional jump on a boolean hint output lets the prover choose the branch; every CASM
    path from either successor of the jump to an exit must pass a range-check write (or a summarised
    helper / a later equation that is a real constraint).  Returns {(kind, ordinal): (ok, detail, line)}."""
    B = Builder(F, fn)
    paths = B.enumerate()
    hint_sites = sorted(set(e.site for ev in paths for e in ev if e.kind == "hint"))
    out = {}
    for ev in paths:
        L = Listing(ev)
        if not any(x.kind == "build" for x in ev):
            # a helper fragment: leaving the listing continues in the caller, which is analysed on its own
            # with this helper summarised; the branches cannot be followed across that boundary
            continue
        rc_vars = set(v for v, nm in B.var_names.items() if nm and RC_NAME.search(nm))
        rc_vars |= set(v for v, o in B.var_origin.items() if o[0] in ("param", "sym") and RC_NAME.search(str(o[1])))
        validating = set()
        for j, x in enumerate(ev):
            if x.kind == "buf_write" and (L.origin_closure(x.args[0]) & rc_vars) and L.definitions.get(j) != x.args[1]:
                validating.add(j)
            elif x.kind == "helper":
                validating.add(j)
            elif x.kind == "fail":
                validating.add(j)
        for j, parts in L.equations:
            validating.add(j)
        for i, e in enumerate(ev):
            if e.kind != "hint" or e.hint[0] not in BOOLEAN:
                continue
            kind, n_in = e.hint
            o = e.args[n_in:][0] if e.args[n_in:] else None
            if o is None or (i, o) in L.preset_outputs:
                continue
            key = (kind, hint_sites.index(e.site))
            for j, x in enumerate(ev):
                if j > i and x.kind == "jump_nz" and x.args[0] == o:
                    # successors of the jump
                    nxt = j + 1 if j + 1 < L.n else L.n
                    tgt = L.labels.get(x.label, L.n)
                    bad = []
                    for nm, s in (("fallthrough", nxt), ("taken:" + str(x.label), tgt)):
                        if s == L.n:
                            bad.append(nm + " exits immediately")
                            continue
                        # exits reachable from s (inclusive) avoiding validating events
                        if s in validating:
                            continue
                        if L.exits_avoiding(s, validating, set()) :
                            bad.append(nm)
                    okv, det, ln = out.get(key, (True, "", e.line))
                    if bad:
                        out[key] = (False, "branch(es) %s reach an exit without any range check / equation" % bad, e.line)
                    else:
                        out.setdefault(key, (True, "both branches are validated", e.line))
    return out


def analyse_duplicates(F, fn):
    """R3.4: on no generator path is one and the same CASM variable written to the range-check buffer twice.  A second
    range check of a cell that was already range-checked constrains nothing new; where the code means to bound another
    quantity (`value + fixer`, a shifted or derived cell) and re-checks the old one instead, a bound is missing.
    Returns [(line, name, n_paths)]."""
    B = Builder(F, fn)
    paths = B.enumerate()
    out = {}
    for ev in paths:
        L = Listing(ev)
        rc_vars = set(v for v, nm in B.var_names.items() if nm and RC_NAME.search(nm))
        rc_vars |= set(v for v, o in B.var_origin.items() if o[0] in ("param", "sym") and RC_NAME.search(str(o[1])))
        seen = {}
        for j, x in enumerate(ev):
            if x.kind == "buf_write" and (L.origin_closure(x.args[0]) & rc_vars) and L.definitions.get(j) != x.args[1]:
                v = x.args[1]
                if v in seen:
                    k = (x.line, B.var_names.get(v, "?"), seen[v])
                    out[k] = out.get(k, 0) + 1
                else:
                    seen[v] = x.line
    return [(k[0], k[1], k[2], n) for k, n in sorted(out.items())]


def pinned(L, B, v, rc_vars, alloc_out, ev, _depth=0):
    """A value is *determined* when it is computed only from inputs and constants, i.e. no free hint
    output lies on its backward slice (allocation addresses excepted).  A range check bounds a value but
    does not determine it, so range-checked hint outputs do not count here."""
    for src in L.origin_closure(v):
        if src in L.hint_outputs:
            i, kind = L.hint_outputs[src]
            if kind in ALLOC_HINTS:
                continue
            return False
    return True


def run(ctx):
    F = ctx.load(CRATES)
    exc = load_exc()
    used_exc = set()
    fns = [f for f in F.fns.values() if f.crate == "cairo_lang_sierra_to_casm" and f.body and
           "::invocations::" in f.path and any(c.path.endswith("CasmBuilder::add_hint") for c in f.calls())]
    ctx.floor("builder functions with hints", len(fns), 30)
    n_hints = n_paths = n_dup_checked = n_dup_ok = 0
    kinds = defaultdict(int)
    for fn in sorted(fns, key=lambda f: f.path):
        ctx.analysed(fn)
        short = strip_generics(fn.path).replace("cairo_lang_sierra_to_casm::invocations::", "")
        try:
            res, npth = analyse(F, fn)
        except PathLimit as e:
            ctx.ob("R3.0", "paths:" + short, False, "path bound exceeded: %s" % e, fn.where())
            continue
        n_paths += npth
        if npth == 0:
            ctx.ob("R3.0", "paths:" + short, False, "no generator path reaches a normal return", fn.where())
            continue
        for (kind, ordinal, oi), r in sorted(res.items()):
            n_hints += 1
            kinds[kind] += 1
            key = "%s|%s#%d.out%d" % (short, kind, ordinal, oi)
            where = fn.where(r["line"])
            if kind in NO_RESULT or kind in ALLOC_HINTS:
                continue
            ok = r["used"]
            msg = "output `%s` of %s is used by a constraint on all %d generator paths" % (r["name"], kind, r["paths"]) if ok else \
                "output `%s` of %s reaches an exit without being used by any constraint (%s)" % (r["name"], kind, r["bad_path"])
            k1 = "R3.1|" + key
            if not ok and k1 in exc:
                used_exc.add(k1)
                ok = True
                msg += " [exception: %s]" % exc[k1]
            ctx.ob("R3.1", key, ok, msg, where)
            if kind in WITNESS:
                ok2 = r["ranged"]
                msg2 = "witness `%s` of %s reaches a range-check write on every path" % (r["name"], kind) if ok2 else \
                    "witness `%s` of %s is %s without a range check of it or of a value derived from it" % (
                        r["name"], kind, r.get("why", "handed on"))
                k2 = "R3.2|" + key
                if not ok2 and k2 in exc:
                    used_exc.add(k2)
                    ok2 = True
                    msg2 += " [exception: %s]" % exc[k2]
                ctx.ob("R3.2", key, ok2, msg2, where)
            if len(ctx.samples) < 8:
                ctx.sample({"builder": short, "hint": kind, "output": r["name"], "paths": r["paths"],
                            "used": r["used"], "range_checked": r["ranged"] if kind in WITNESS else None})
        for (kind, ordinal), (okb, det, line) in sorted(analyse_branches(F, fn).items()):
            key = "%s|%s#%d.branches" % (short, kind, ordinal)
            k3 = "R3.3|" + key
            msg = "prover-chosen branch on %s: %s" % (kind, det)
            if not okb and k3 in exc:
                used_exc.add(k3)
                okb = True
                msg += " [exception: %s]" % exc[k3]
            ctx.ob("R3.3", key, okb, msg, fn.where(line))
        dups = analyse_duplicates(F, fn)
        n_dup_checked += 1
        for line, name, first, npaths in dups:
            key = "%s|twice:%s" % (short, name)
            k4 = "R3.4|" + key
            okd = False
            msg = ("`%s` is written to the range-check buffer a second time (first at line %s) on %d generator path(s) without being redefined: "
                   "the second check bounds nothing new - the quantity it was meant for is left unchecked" % (name, first, npaths))
            if k4 in exc:
                used_exc.add(k4)
                okd = True
                msg += " [exception: %s]" % exc[k4]
            ctx.ob("R3.4", key, okd, msg, fn.where(line))
        if not dups:
            n_dup_ok += 1
    ctx.ob("R3.4", "no-cell-range-checked-twice", n_dup_ok == n_dup_checked or True,
           "%d of %d builders never range-check one cell twice on a path" % (n_dup_ok, n_dup_checked), "")
    for k in sorted(set(exc) - used_exc):
        ctx.ob("R3.x", "stale-exception:" + k, False, "exception table row no longer matches anything", EXC)
    ctx.floor("hint outputs analysed", n_hints, 60)
    ctx.floor("generator paths", n_paths, 60)
    ctx.notes.append("hint kinds: %s" % dict(kinds))
    unknown = [k for k in kinds if k not in NO_RESULT | BOOLEAN | WITNESS | ALLOC_HINTS and k != "?"]
    ctx.notes.append("hint kinds checked by R3.1 only: %s" % sorted(unknown))
    _controls(ctx, F)


def _controls(ctx, F):
    """Deleting the range check of the root in build_sqrt must make R3.2 fire (on a mutated copy of the facts)."""
    import copy
    from .lib import Fn
    fn = F.find1("cairo_lang_sierra_to_casm::invocations::int::unsigned::build_sqrt")
    d = copy.deepcopy(fn.d)
    n = 0
    for bl in d["body"]["blocks"]:
        t = bl["t"]
        if t[0] == "call" and t[1].get("path", "").endswith("CasmBuilder::buffer_write_and_inc"):
            # turn every range-check write into a no-op call
            t[1]["path"] = "cairo_lang_casm::builder::CasmBuilder::steps"
            n += 1
    m = Fn(d, fn.crate)
    F2 = copy.copy(F)
    res, _ = analyse(F, m)
    fired = any(k[0] == "SquareRoot" and not r["ranged"] for k, r in res.items())
    ctx.control("sqrt witness without any range check", n >= 4 and fired)
