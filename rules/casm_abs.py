"""Abstract interpretation of libfunc builders over the CasmBuilder API.

For one builder function the MIR is walked path by path (Rust-level branches on generic arguments,
type sizes, ranges ...); along each path the ordered CasmBuilder calls form an abstract CASM
listing whose labels and jumps give a CASM-level control-flow graph.  The questions asked of it
are of the form "on every CASM path from this hint to an exit, is the hint's output pinned?".
"""
from collections import defaultdict

from .guards import error_sink_blocks
from .lib import op_local, op_const, op_place, place_local, place_proj, last_seg, strip_generics

API = "cairo_lang_casm::builder::CasmBuilder::"
MAX_PATHS = 6000
MAX_EVENTS = 4000


class Event:
    __slots__ = ("kind", "args", "dest", "line", "label", "hint", "callee", "site", "groups")

    def __init__(self, kind, args=(), dest=None, line=0, label=None, hint=None, callee=None):
        self.kind, self.args, self.dest, self.line = kind, list(args), dest, line
        self.label, self.hint, self.callee = label, hint, callee
        self.site = None
        self.groups = None

    def __repr__(self):
        return "%s(%s)%s@L%s" % (self.kind, ",".join(map(str, self.args)), ("->%s" % self.dest) if self.dest is not None else "", self.line)


class PathLimit(Exception):
    pass


class _Infeasible(Exception):
    pass


class Builder:
    """Analysis of one function that drives a CasmBuilder."""

    def __init__(self, F, fn):
        self.F = F
        self.fn = fn
        self.closures = {c.path: c for c in F.closures_of(fn)}
        self.paths = None
        self.var_names = {}
        self.var_origin = {}
        self.n_vars = 0

    # ---- hint kind from the closure passed to add_hint
    def hint_kind(self, closure_path):
        c = self.closures.get(closure_path) or self.F.fns.get(closure_path)
        if c is None:
            return "?"
        kinds = []
        for _, _, st in c.stmts():
            if st[0] == "a" and st[2][0] == "agg" and st[2][1] == "adt" and "hints::" in st[2][2] and st[2][2].endswith("Hint"):
                kinds.append(st[2][4])
        return kinds[0] if kinds else "?"

    # ---- viable blocks: a normal return is reachable without passing an error sink
    def _viable(self):
        fn = self.fn
        sinks = error_sink_blocks(fn)
        rets = [b for b in fn.live_blocks() if fn.blocks[b]["t"][0] == "ret"]
        # backward reachability from returns avoiding sinks
        good = set()
        stack = [r for r in rets if r not in sinks]
        while stack:
            b = stack.pop()
            if b in good or b in sinks:
                continue
            good.add(b)
            for p in fn.pred(b):
                stack.append(p)
        return good

    def new_var(self, origin, name=None):
        self.n_vars += 1
        v = self.n_vars
        self.var_origin[v] = origin
        if name:
            self.var_names[v] = name
        return v

    # ---- path enumeration with sequential interpretation
    def enumerate(self):
        if self.paths is not None:
            return self.paths
        fn = self.fn
        viable = self._viable()
        paths = []
        if 0 not in viable:
            self.paths = []
            return self.paths
        # parameter values
        env0 = {}
        for l in range(1, fn.argc + 1):
            ty = fn.local_ty(l)
            nm = fn.local_name(l) or ("arg%d" % l)
            if ty.replace("&", "").strip() == "cairo_lang_casm::builder::Var" or ty.endswith("builder::Var"):
                env0[l] = ("var", self.new_var(("param", nm), nm))
            else:
                env0[l] = ("sym", nm)
        stack = [(0, env0, [], {})]
        n_paths = 0
        while stack:
            bb, env, events, visits = stack.pop()
            while True:
                visits = dict(visits)
                visits[bb] = visits.get(bb, 0) + 1
                if visits[bb] > 2 or len(events) > MAX_EVENTS:
                    break
                try:
                    env, events, nxt = self._step(bb, env, events, viable)
                except _Infeasible:
                    break
                if nxt is None:
                    paths.append(events)
                    n_paths += 1
                    if n_paths > MAX_PATHS:
                        raise PathLimit("%s: more than %d paths" % (fn.path, MAX_PATHS))
                    break
                if len(nxt) == 0:
                    break
                nxt = [x if isinstance(x, tuple) else (x, None) for x in nxt]
                for alt, upd in nxt[1:]:
                    e2 = dict(env)
                    if upd:
                        e2[upd[0]] = upd[1]
                    stack.append((alt, e2, list(events), visits))
                bb, upd = nxt[0]
                if upd:
                    env[upd[0]] = upd[1]
        self.paths = paths
        return paths

    def _val(self, env, op):
        """Abstract value of an operand."""
        if op[0] in ("c", "m"):
            return self._place_val(env, op[1])
        if op[0] == "k":
            if op[1] in ("int", "str"):
                return ("const", op[2])
            if op[1] == "closure":
                return ("closure", op[2])
            return ("const", None)
        return ("unk",)

    def _place_val(self, env, p):
        l = place_local(p)
        v = env.get(l)
        proj = place_proj(p)
        for e in proj:
            if e == "*":
                continue
            if isinstance(e, list) and e[0] == "f":
                if v and v[0] in ("arr", "tuple") and isinstance(e[1], int) and e[1] < len(v[1]):
                    v = v[1][e[1]]
                elif v and v[0] == "derived":
                    pass
                elif v and v[0] == "adt" and str(e[2]) in v[3]:
                    v = v[3][str(e[2])]
                else:
                    key = "%s.%s" % (v[1] if v and v[0] == "sym" else "_%d" % l, e[2])
                    v = ("sym", key)
            elif isinstance(e, list) and e[0] in ("ci",):
                if v and v[0] == "arr" and e[1] < len(v[1]):
                    v = v[1][e[1]]
            elif isinstance(e, list) and e[0] == "d":
                continue
        if v is None:
            v = ("sym", "_%d" % l)
        return v

    def _as_var(self, val, ty_hint=None):
        """Coerces an abstract value to a Var id (symbolic values become fresh parameter-like vars)."""
        if val[0] == "var":
            return val[1]
        if val[0] == "sym":
            key = ("sym", val[1])
            for v, o in self.var_origin.items():
                if o == key:
                    return v
            return self.new_var(key, val[1])
        if val[0] == "derived":
            key = ("derived", tuple(sorted(val[1])), val[2])
            for v, o in self.var_origin.items():
                if o == key:
                    return v
            return self.new_var(key)
        return self.new_var(("unk",))

    def _vars_in(self, val):
        out = []
        if val is None:
            return out
        if val[0] == "var":
            out.append(val[1])
        elif val[0] in ("arr", "tuple"):
            for x in val[1]:
                out.extend(self._vars_in(x))
        elif val[0] == "derived":
            out.extend(val[1])
        elif val[0] == "adt":
            out.extend(val[4])
        return out

    def _step(self, bb, env, events, viable):
        fn = self.fn
        b = fn.blocks[bb]
        for st in b["s"]:
            if st[0] != "a":
                continue
            dst, rv = st[1], st[2]
            if not isinstance(dst, int):
                # write through a projection: fold into the base value when it is an array/tuple element
                continue
            k = rv[0]
            if k == "use":
                env[dst] = self._val(env, rv[1])
                l = op_local(rv[1])
                if env[dst][0] == "var" and fn.local_name(dst) and env[dst][1] not in self.var_names:
                    self.var_names[env[dst][1]] = fn.local_name(dst)
            elif k == "ref":
                env[dst] = self._place_val(env, rv[1])
            elif k == "cast":
                env[dst] = self._val(env, rv[2])
            elif k == "agg":
                if rv[1] in ("array", "tuple"):
                    env[dst] = ("arr" if rv[1] == "array" else "tuple", [self._val(env, o) for o in rv[3]])
                elif rv[1] == "closure":
                    env[dst] = ("closure", rv[2])
                elif rv[1] == "adt":
                    vals = [self._val(env, o) for o in rv[3]]
                    vs = [v for x in vals for v in self._vars_in(x)]
                    env[dst] = ("adt", rv[2], rv[4], dict(zip(rv[5], vals)), vs, rv[6] if len(rv) > 6 else None)
                else:
                    env[dst] = ("unk",)
            elif k in ("bin", "un"):
                a = self._val(env, rv[2])
                if k == "bin":
                    c2 = self._val(env, rv[3])
                    if a[0] == "const" and c2[0] == "const" and isinstance(a[1], int) and isinstance(c2[1], int):
                        env[dst] = ("const", _fold(rv[1], a[1], c2[1]))
                        continue
                elif a[0] == "const" and isinstance(a[1], int) and rv[1] == "Not":
                    env[dst] = ("const", 0 if a[1] else 1)
                    continue
                env[dst] = ("unk",)
            elif k == "disc":
                v = self._place_val(env, rv[1])
                if v and v[0] == "adt":
                    env[dst] = ("const", v[5]) if len(v) > 5 and v[5] is not None else ("unk",)
                else:
                    env[dst] = ("disc", "disc:" + _place_key(rv[1]))
            else:
                env[dst] = ("unk",)
        t = b["t"]
        kind = t[0]
        if kind == "ret":
            return env, events, None
        if kind == "goto":
            return env, events, [t[1]] if t[1] in viable else []
        if kind in ("drop",):
            return env, events, [t[2]] if t[2] in viable else []
        if kind == "assert":
            return env, events, [t[5]] if t[5] in viable else []
        if kind == "switch":
            v = self._val(env, t[1])
            succs = []
            if v[0] == "const" and isinstance(v[1], int):
                tgt = None
                for val, s in t[2]:
                    if val == v[1]:
                        tgt = s
                if tgt is None:
                    tgt = t[3]
                succs = [tgt]
            elif v[0] == "disc":
                key = v[1]
                known = env.get(key)
                if known is not None:
                    tgt = None
                    for val, s in t[2]:
                        if val == known[1]:
                            tgt = s
                    if tgt is None:
                        tgt = t[3]
                    succs = [tgt]
                else:
                    out = []
                    seen_t = set()
                    for val, s in t[2]:
                        if s in viable and not fn.is_unreachable_block(s):
                            out.append((s, (key, ("const", val))))
                    if t[3] in viable and not fn.is_unreachable_block(t[3]):
                        out.append((t[3], None))
                    return env, events, out
            else:
                for val, s in t[2]:
                    if s not in succs:
                        succs.append(s)
                if t[3] not in succs:
                    succs.append(t[3])
            succs = [s for s in succs if s in viable]
            return env, events, succs
        if kind == "call":
            events = self._call(env, events, t, bb)
            if t[4] is None:
                return env, events, []
            return env, events, [t[4]] if t[4] in viable else []
        return env, events, []

    def _call(self, env, events, t, bb):
        fn = self.fn
        cal = t[1]
        path = cal.get("path", "")
        args = [self._val(env, a) for a in t[2]]
        dest = place_local(t[3])
        line = t[5]
        if path.startswith(API):
            m = path[len(API):].split("::")[0].split("<")[0]
            a = args[1:]  # drop &mut self
            ev = None
            if m == "alloc_var":
                v = self.new_var(("alloc", line), fn.local_name(dest))
                env[dest] = ("var", v)
                ev = Event("alloc", [], v, line)
            elif m == "add_var":
                v = self.new_var(("input", line), fn.local_name(dest))
                env[dest] = ("var", v)
                src = [x for y in a for x in self._vars_in(y)]
                ev = Event("add_var", src, v, line)
            elif m in ("duplicate_var", "maybe_add_tempvar"):
                src = self._as_var(a[0])
                v = self.new_var((m, line), fn.local_name(dest))
                env[dest] = ("var", v)
                ev = Event("copy", [src], v, line)
            elif m == "bin_op":
                x, y = self._as_var(a[1]), self._as_var(a[2])
                v = self.new_var(("bin_op", line), fn.local_name(dest))
                env[dest] = ("var", v)
                ev = Event("bin_op", [x, y], v, line)
            elif m in ("get_ref_and_inc", "double_deref", "buffer_get_and_inc"):
                src = self._as_var(a[0])
                v = self.new_var((m, line), fn.local_name(dest))
                env[dest] = ("var", v)
                ev = Event("read", [src], v, line)
            elif m == "assert_vars_eq":
                ev = Event("assert", [self._as_var(a[0]), self._as_var(a[1])], None, line)
            elif m == "buffer_write_and_inc":
                ev = Event("buf_write", [self._as_var(a[0]), self._as_var(a[1])], None, line)
            elif m == "add_hint":
                closure = a[0][1] if a[0][0] == "closure" else None
                ins = [self._as_var(x) for x in (a[1][1] if a[1][0] == "arr" else [])]
                outs = [self._as_var(x) for x in (a[2][1] if a[2][0] == "arr" else [])]
                ev = Event("hint", ins + outs, None, line, hint=(self.hint_kind(closure) if closure else "?", len(ins)))
            elif m == "jump":
                ev = Event("jump", [], None, line, label=a[0][1] if a[0][0] == "const" else "?")
            elif m == "jump_nz":
                ev = Event("jump_nz", [self._as_var(a[0])], None, line, label=a[1][1] if a[1][0] == "const" else "?")
            elif m == "label":
                ev = Event("label", [], None, line, label=a[0][1] if a[0][0] == "const" else "?")
            elif m == "call":
                ev = Event("call", [], None, line, label=a[0][1] if a[0][0] == "const" else "?")
            elif m == "fail":
                ev = Event("fail", [], None, line)
            elif m == "ret":
                ev = Event("ret", [], None, line)
            elif m == "rescope":
                pairs = a[0][1] if a[0][0] == "arr" else []
                vs = []
                for pr in pairs:
                    if pr[0] == "tuple" and len(pr[1]) == 2:
                        vs.append((self._as_var(pr[1][0]), self._as_var(pr[1][1])))
                ev = Event("rescope", [x for p_ in vs for x in p_], None, line)
            elif m in ("build",):
                ev = Event("build", [x for y in a for x in self._vars_in(y)], None, line)
            if ev is not None:
                ev.site = bb
                events = events + [ev]
            else:
                env[dest] = ("unk",)
            return events
        # not a builder API call
        has_builder = any("CasmBuilder" in fn.local_ty(op_local(o)) for o in t[2] if op_local(o) is not None)
        vs = [x for y in args for x in self._vars_in(y)]
        nm = last_seg(path)
        dty = fn.local_ty(dest)
        if nm in ("build_from_casm_builder", "build_from_casm_builder_ex"):
            ev = Event("build", vs, None, line)
            # per-branch outputs: [(name, &[&[vars]..], target)]
            branches = {}
            groups = {}
            for a in args:
                if a and a[0] == "arr":
                    for br in a[1]:
                        if br and br[0] == "tuple" and br[1] and br[1][0][0] == "const" and isinstance(br[1][0][1], str):
                            branches[br[1][0][1]] = [x for y in br[1][1:] for x in self._vars_in(y)]
                            gl = []
                            for y in br[1][1:]:
                                if y and y[0] == "arr":
                                    for grp in y[1]:
                                        gl.append(self._vars_in(grp))
                            groups[br[1][0][1]] = gl
            ev.label = branches or None
            ev.groups = groups or None
            ev.site = bb
            events = events + [ev]
            env[dest] = ("unk",)
            return events
        if has_builder or "CasmBuilder" in dty:
            # a helper that emits code: summarised as constraining every Var argument
            events = events + [Event("helper", vs, None, line, callee=path)]
            if "builder::Var" in dty:
                env[dest] = ("derived", vs, line)
            else:
                env[dest] = ("unk",)
            return events
        # value plumbing: iterators, clones, conversions keep the vars
        if nm in ("unwrap", "expect", "unwrap_or_default") and args and args[0][0] == "adt" and args[0][2] == "Some":
            env[dest] = args[0][3].get("0", ("unk",))
            return events
        if nm in ("unwrap", "expect") and args and args[0][0] == "adt" and args[0][2] == "None":
            raise _Infeasible()
        if nm in ("clone", "deref", "as_ref", "borrow", "into", "from") and args and args[0][0] in ("var", "arr", "tuple", "adt"):
            env[dest] = args[0]
            return events
        if vs:
            env[dest] = ("derived", vs, line) if "builder::Var" in dty else ("tuple", [("var", v) for v in vs])
        elif nm in ("into", "from", "clone", "to_owned", "deref", "as_ref", "borrow", "unwrap", "expect", "branch"):
            env[dest] = args[0] if args else ("unk",)
        else:
            # constant-returning helpers are unknown
            env[dest] = ("unk",)
        return events


def _place_key(p):
    if isinstance(p, int):
        return "_%d" % p
    s = "_%d" % p[0]
    for e in p[1]:
        if e == "*":
            s = "*" + s
        elif isinstance(e, list):
            s += "." + str(e[1] if e[0] != "f" else e[2])
    return s


def _fold(op, a, b):
    try:
        return {"Eq": int(a == b), "Ne": int(a != b), "Lt": int(a < b), "Le": int(a <= b), "Gt": int(a > b),
                "Ge": int(a >= b), "BitAnd": a & b, "BitOr": a | b, "BitXor": a ^ b, "Add": a + b, "Sub": a - b,
                "Mul": a * b}.get(op)
    except Exception:
        return None


# ----------------------------------------------------------------------------------------
# CASM-level analysis of one event listing

class Listing:
    def __init__(self, events):
        self.ev = events
        self.labels = {}
        for i, e in enumerate(events):
            if e.kind == "label":
                self.labels[e.label] = i
        self.n = len(events)
        self._defs()

    def succ(self, i):
        """Successor indices; self.n stands for an exit."""
        e = self.ev[i]
        EXIT = self.n
        if e.kind in ("fail", "ret"):
            return []
        if e.kind == "build":
            return [EXIT]
        if e.kind == "jump":
            return [self.labels.get(e.label, EXIT)]
        if e.kind == "jump_nz":
            return [i + 1 if i + 1 < self.n else EXIT, self.labels.get(e.label, EXIT)]
        if e.kind == "call":
            return [i + 1 if i + 1 < self.n else EXIT, self.labels.get(e.label, EXIT)]
        return [i + 1 if i + 1 < self.n else EXIT]

    def _defs(self):
        """Order-aware definedness and derivation: derived[v] = set of vars v is computed from."""
        self.defined_at = {}     # var -> event index where it became defined
        self.parents = defaultdict(set)
        self.alloc_hint_outputs = set()
        self.hint_outputs = {}
        self.preset_outputs = set()
        self.equations = []      # (idx, participants) real equations
        self.definitions = {}    # idx -> defined var
        defined = set()
        expr = {}                # bin_op var -> operands
        for i, e in enumerate(self.ev):
            k = e.kind
            if k == "add_var":
                defined.add(e.dest)
                self.defined_at[e.dest] = i
                for s in e.args:
                    self.parents[e.dest].add(s)
            elif k == "alloc":
                pass
            elif k == "copy":
                self.parents[e.dest].add(e.args[0])
                if e.args[0] in defined:
                    defined.add(e.dest)
                    self.defined_at[e.dest] = i
                else:
                    # alias of an undefined cell: share definedness later via parents both ways
                    self.parents[e.args[0]].add(e.dest)
            elif k == "bin_op":
                expr[e.dest] = list(e.args)
                self.parents[e.dest].update(e.args)
                if all(a in defined for a in e.args):
                    defined.add(e.dest)
                    self.defined_at[e.dest] = i
            elif k == "read":
                self.parents[e.dest].add(e.args[0])
                defined.add(e.dest)
                self.defined_at[e.dest] = i
            elif k == "hint":
                kind, n_in = e.hint
                for o in e.args[n_in:]:
                    if o in defined:
                        # the hint writes an already pinned cell (write-once memory): not a free value
                        self.preset_outputs.add((i, o))
                        continue
                    defined.add(o)
                    self.defined_at[o] = i
                    self.hint_outputs[o] = (i, kind)
            elif k == "assert":
                parts = []
                for a in e.args:
                    if a in expr:
                        parts.extend(expr[a])
                    else:
                        parts.append(a)
                undef = [p for p in parts if p not in defined]
                if len(undef) == 1:
                    u = undef[0]
                    defined.add(u)
                    self.defined_at[u] = i
                    self.definitions[i] = u
                    for p in parts:
                        if p != u:
                            self.parents[u].add(p)
                    # expression vars built on u become defined too
                    for ev_, ops in expr.items():
                        if ev_ not in defined and all(o in defined for o in ops):
                            defined.add(ev_)
                            self.defined_at[ev_] = i
                elif len(undef) == 0:
                    self.equations.append((i, parts))
                else:
                    # several unknowns: treat as defining all of them (over-approximation, no alarm source)
                    for u in undef:
                        defined.add(u)
                        self.defined_at[u] = i
                        for p in parts:
                            if p != u:
                                self.parents[u].add(p)
            elif k == "buf_write":
                buf, val = e.args
                if val not in defined:
                    # a read from the buffer: defines val
                    defined.add(val)
                    self.defined_at[val] = i
                    self.definitions[i] = val
                    self.parents[val].add(buf)
            elif k == "rescope":
                for j in range(0, len(e.args), 2):
                    new, old = e.args[j], e.args[j + 1]
                    self.parents[new].add(old)
                    defined.add(new)
                    self.defined_at[new] = i
            elif k == "helper":
                pass
        self.defined = defined

    def derived_from(self, o):
        """Vars whose value is computed from o (forward closure over parents)."""
        out = {o}
        changed = True
        while changed:
            changed = False
            for v, ps in self.parents.items():
                if v not in out and ps & out:
                    out.add(v)
                    changed = True
        return out

    def origin_closure(self, v):
        """Backward closure: everything v is computed from."""
        out = {v}
        stack = [v]
        while stack:
            x = stack.pop()
            for p in self.parents.get(x, ()):
                if p not in out:
                    out.add(p)
                    stack.append(p)
        return out

    def branch_outputs(self):
        for e in self.ev:
            if e.kind == "build" and isinstance(e.label, dict):
                return e.label
        return None

    def exits_avoiding(self, start, blockers, consumers):
        """Exits reachable from event `start` (exclusive) without passing an event in `blockers`.
        Returns a list of (exit_name, consumed) where exit_name is the jump target label that is not
        defined in the listing, or 'Fallthrough' for falling off the end, and consumed tells whether
        some event in `consumers` lies on the path."""
        EXIT = self.n
        out = set()
        seen = set()
        stack = []

        def push(i, name, consumed):
            stack.append((i, name, consumed))

        def succs(i):
            e = self.ev[i]
            if e.kind in ("fail", "ret"):
                return []
            nxt = i + 1 if i + 1 < self.n else EXIT
            if e.kind == "build":
                return [(EXIT, "Fallthrough")]
            if e.kind == "jump":
                return [(self.labels[e.label], None)] if e.label in self.labels else [(EXIT, e.label)]
            if e.kind in ("jump_nz", "call"):
                r = [(nxt, "Fallthrough" if nxt == EXIT else None)]
                r.append((self.labels[e.label], None) if e.label in self.labels else (EXIT, e.label))
                return r
            return [(nxt, "Fallthrough" if nxt == EXIT else None)]
        for s, name in succs(start):
            push(s, name, False)
        while stack:
            i, name, consumed = stack.pop()
            if i == EXIT:
                out.add((name, consumed))
                continue
            if (i, consumed) in seen or i in blockers:
                continue
            seen.add((i, consumed))
            c2 = consumed or (i in consumers)
            for s, nm in succs(i):
                push(s, nm, c2)
        return sorted(out, key=str)

    def paths_avoiding(self, start, blockers):
        """True iff an exit is reachable from event `start` (exclusive) without passing an event index
        in `blockers`."""
        EXIT = self.n
        seen = set()
        stack = list(self.succ(start))
        while stack:
            i = stack.pop()
            if i == EXIT:
                return True
            if i in seen or i in blockers:
                continue
            seen.add(i)
            stack.extend(self.succ(i))
        return False
