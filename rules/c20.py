"""C20 - compiling against a crate cache equals compiling from source (clause: every cached mirror
type round-trips field-for-field and variant-for-variant)."""
import os
import re
from collections import defaultdict

from .guards import prov, op_prov, bool_condition, switch_edges, control_fields
from .lib import (fn_key, op_local, op_const, op_place, place_local, place_fields, rvalue_places, rvalue_operands,
                  strip_generics, last_seg, AnchorError)

EXPLANATION = (
    "Decides the structural clause of C20: for every cached mirror type XCached of the defs, semantic and "
    "lowering caches with its pair of functions new(source, ctx) and embed/get_embedded(self, ctx): (R20.1) in "
    "the loading direction every field of the rebuilt source value that has a same-named mirror field derives "
    "from that mirror field, a field without one derives from some mirror field (no silently defaulted field "
    "outside the reasoned exception table), every mirror field is read; in the saving direction every mirror "
    "field with a same-named source field derives from it; (R20.2) for enum mirrors the composition "
    "source variant -> mirror variant -> source variant is the identity, panicking 'not supported for caching' "
    "arms are an enumerated set, and no catch-all arm swallows a source variant; (R20.3) every *Cached type has "
    "both directions; (R20.4) cached lowerings are consulted only for crates that have a cache file; (R20.5) the "
    "interning tables of the saving contexts store a payload computed from the key alone; (R20.6) the validity test of a "
    "crate cache compares every field of the recorded metadata with the freshly computed one and refuses on a mismatch; "
    "(R20.7) no routine of the cache modules re-orders or de-duplicates a sequence or collects it into a container with "
    "an order of its own. That the id lookup tables are consistent across sections and that the recorded metadata is "
    "sufficient is not decided.")
ASSUMPTIONS = ["mirror fields are matched to source fields by name (the convention of the three cache modules); fields without a same-named counterpart are only required to derive from the other side",
               "serde derives on the mirror types are symmetric by construction"]
EXHAUSTIVE = True
CRATES = ["cairo_lang_defs", "cairo_lang_semantic", "cairo_lang_lowering"]
EXC = os.path.join(os.path.dirname(__file__), "..", "tables", "c20_exceptions.tsv")


def load_exc():
    out = {}
    if os.path.exists(EXC):
        for line in open(EXC):
            if line.strip() and not line.startswith("#"):
                p = line.rstrip("\n").split("\t")
                out[p[0]] = p[1] if len(p) > 1 else ""
    return out


def adt_of_type(F, ty):
    """ADT path of a (possibly referenced / generic) type string, if it is a workspace ADT."""
    ty = ty.strip()
    while ty.startswith("&"):
        ty = ty[1:].lstrip()
        if ty.startswith("mut "):
            ty = ty[4:]
        if ty.startswith("'"):
            ty = ty.split(" ", 1)[1] if " " in ty else ty
    base = strip_generics(ty).strip()
    return base if base in F.adts else None


def is_cached(p):
    return p.endswith("Cached") and "::cache::" in p


def fn_group(F, fn):
    return [fn] + F.closures_of(fn)


def aggregates(fns, pred):
    for f in fns:
        for i, j, st in f.stmts():
            if st[0] == "a" and st[2][0] == "agg" and st[2][1] == "adt" and pred(st[2][2]):
                yield f, i, st


def field_reads(fns, adt_path):
    """Names of fields of `adt_path` read anywhere in the functions."""
    out = set()
    for f in fns:
        for i, j, st in f.stmts():
            if st[0] != "a":
                continue
            for p in list(rvalue_places(st[2])) + [st[1]]:
                if isinstance(p, int):
                    continue
                for e in p[1]:
                    if isinstance(e, list) and e[0] == "f" and e[3] == adt_path:
                        out.add(e[2])
        for c in f.calls():
            for a in c.args:
                p = op_place(a)
                if p is not None and not isinstance(p, int):
                    for e in p[1]:
                        if isinstance(e, list) and e[0] == "f" and e[3] == adt_path:
                            out.add(e[2])
    return out


def run(ctx):
    F = ctx.load(CRATES, adts_only=["cairo_lang_filesystem", "cairo_lang_syntax", "cairo_lang_diagnostics", "cairo_lang_utils"])
    exc = load_exc()
    used_exc = set()
    cached = {p: a for p, a in F.adts.items() if is_cached(p)}
    ctx.floor("cached mirror types", len(cached), 100)
    methods = defaultdict(dict)
    for f in F.fns.values():
        sa = f.d.get("self_adt")
        if sa in cached and f.kind == "AssocFn" and not f.d.get("trait"):
            methods[sa][f.name] = f

    n_struct = n_enum = n_fields = n_variants = 0
    unsupported = []
    for p, a in sorted(cached.items()):
        short = p.split("::")[0].replace("cairo_lang_", "") + "::" + p.rsplit("::", 1)[1]
        ms = methods.get(p, {})
        new = ms.get("new")
        back = ms.get("embed") or ms.get("get_embedded") or next(
            (f for n, f in sorted(ms.items()) if n.startswith(("to_", "into_"))), None)
        # ---- R20.3 pairing
        if new is None or back is None:
            key = "pair:" + short
            if key in exc:
                used_exc.add(key)
                ctx.ob("R20.3", key, True, "exception: " + exc[key], "%s:%s" % (a["file"], a["line"]))
            else:
                ctx.ob("R20.3", key, False, "mirror type lacks %s" % ("new" if new is None else "embed/get_embedded"),
                       "%s:%s" % (a["file"], a["line"]))
            continue
        ctx.ob("R20.3", "pair:" + short, True, "new + %s" % back.name, new.where())
        ctx.analysed(new)
        ctx.analysed(back)
        G_new, G_back = fn_group(F, new), fn_group(F, back)

        if a["kind"] == "struct":
            mfields = [(n, t) for n, t in a["variants"][0]["fields"] if not t.startswith("core::marker::PhantomData")]
            mnames = [n for n, _ in mfields]
            if not mnames:
                continue
            n_struct += 1
            mtype = dict(mfields)
            # ---------- loading direction
            ret_adt = adt_of_type(F, back.local_ty(0))
            allowed = set()
            if ret_adt:
                allowed.add(ret_adt)
                for v in F.adts[ret_adt]["variants"]:
                    for _, ft in v["fields"]:
                        inner = adt_of_type(F, ft)
                        if inner:
                            allowed.add(inner)
            src_aggs = [(f, i, st) for f, i, st in aggregates(G_back, lambda q: q in allowed and not is_cached(q))]
            reads = field_reads(G_back, p)
            for g in mnames:
                key = "%s.%s:read-on-load" % (short, g)
                ok = g in reads
                if not ok and key in exc:
                    used_exc.add(key)
                    ok = True
                ctx.ob("R20.1", key, ok, "mirror field `%s` is %s by %s" % (g, "read" if g in reads else "never read", back.name), back.where())
            for f, i, st in src_aggs:
                adt, variant, names, ops = st[2][2], st[2][4], st[2][5], st[2][3]
                for n, o in zip(names, ops):
                    n_fields += 1
                    toks = op_prov(f, o, 24)
                    hits = set(g for g in mnames if ("f:" + g) in toks)
                    if op_local(o) is not None:
                        hits |= set(g for g in control_fields(f, op_local(o)) if g in mnames)
                    key = "%s->%s.%s" % (short, last_seg(adt) + ("::" + variant if variant != last_seg(adt) else ""), n)
                    if n in mnames:
                        sibs = set(g for g in mnames if g != n and mtype[g] == mtype[n])
                        ok = n in hits and not (hits & sibs and n not in hits)
                        msg = "source field `%s` is rebuilt from mirror field(s) %s" % (n, sorted(hits) or "NONE")
                        if n not in hits and hits & sibs:
                            msg += " - a same-typed sibling instead of `%s`" % n
                    else:
                        ok = bool(hits)
                        msg = "source field `%s` derives from mirror field(s) %s" % (n, sorted(hits) or "NONE (defaulted / recomputed)")
                    if not ok and key in exc:
                        used_exc.add(key)
                        ok = True
                        msg += " [exception: %s]" % exc[key]
                    ctx.ob("R20.1", key, ok, msg, f.where(st[3]))
            # ---------- saving direction
            src_adt = adt_of_type(F, new.local_ty(1)) if new.argc >= 1 else None
            snames = set()
            if src_adt and F.adts[src_adt]["kind"] == "struct":
                for n, t in F.adts[src_adt]["variants"][0]["fields"]:
                    snames.add(n)
                    inner = adt_of_type(F, t)
                    if inner and F.adts[inner]["kind"] == "struct":
                        snames.update(x for x, _ in F.adts[inner]["variants"][0]["fields"])
            index_newtype = len(mfields) == 1 and mfields[0][1] == "usize" and mfields[0][0].isdigit()
            if index_newtype:
                ctx.notes.append("%s: index newtype (position in the lookup table); saving-direction flow not applicable" % short) if len(ctx.notes) < 40 else None
            for f, i, st in aggregates(G_new, lambda q: q == p):
                if index_newtype:
                    break
                for g, o in zip(st[2][5], st[2][3]):
                    if g not in mnames:
                        continue
                    n_fields += 1
                    toks = op_prov(f, o, 24)
                    key = "%s.%s<-source" % (short, g)
                    single = src_adt is not None and F.adts[src_adt]["kind"] == "struct" and \
                        len(F.adts[src_adt]["variants"][0]["fields"]) == 1
                    if g in snames and not g.isdigit() and not (single and "arg:1" in toks):
                        hits = set(s for s in snames if ("f:" + s) in toks or ("c:" + s) in toks)
                        if op_local(o) is not None:
                            hits |= set(s for s in control_fields(f, op_local(o)) if s in snames)
                        sibs = set(s for s in hits if s != g and s in mnames and mtype.get(s) == mtype[g])
                        ok = g in hits
                        msg = "mirror field `%s` is saved from source field(s) %s" % (g, sorted(hits & set(mnames) | ({g} & hits)) or "NONE")
                    else:
                        ok = "arg:1" in toks or ("c:" + g) in toks
                        msg = "mirror field `%s` derives from the source argument: %s" % (g, ok)
                    if not ok and key in exc:
                        used_exc.add(key)
                        ok = True
                        msg += " [exception: %s]" % exc[key]
                    ctx.ob("R20.1", key, ok, msg, f.where(st[3]))
        else:
            n_enum += 1
            mvars = [v["name"] for v in a["variants"]]
            fwd = variant_map(F, new, G_new, src_is_cached=False, dst_adt=p)
            bwd = variant_map(F, back, G_back, src_is_cached=True, dst_adt=None, self_adt=p)
            if fwd is None and bwd is not None:
                # no source enum: `new` takes no enum of the workspace, so the mirror's variants are an encoding choice
                # (e.g. inline payload vs. table index); the load side, which does match on every variant, is checked
                from .lib import strip_generics as _sg
                src_enums = [t for t in (_sg(new.local_ty(i) or "") for i in range(1, new.argc + 1))
                             if t in F.adts and F.adts[t]["kind"] == "enum" and not is_cached(t)]
                if not src_enums:
                    ctx.ob("R20.2", "shape:" + short, True, "mirror enum without a source enum (its variants are an encoding choice); "
                           "%s matches on every variant" % back.name, new.where())
                    continue
            if fwd is None or bwd is None:
                unsupported.append(short)
                key = "shape:" + short
                ok = key in exc
                if ok:
                    used_exc.add(key)
                ctx.ob("R20.2", key, ok, "variant maps not extracted (new: %s, %s: %s)%s" % (
                    "ok" if fwd else "?", back.name, "ok" if bwd else "?", (" [exception: %s]" % exc[key]) if ok else ""), new.where())
                continue
            src_adt, fmap, f_catch, f_panics = fwd
            _, bmap, b_catch, b_panics = bwd
            for V, Ms in sorted(fmap.items()):
                n_variants += 1
                key = "%s:%s" % (short, V)
                if not Ms:
                    pk = "unsupported:%s:%s" % (short, V)
                    ok = pk in exc
                    if ok:
                        used_exc.add(pk)
                    ctx.ob("R20.2", pk, ok, "source variant %s::%s is not cacheable (panics)%s" % (
                        last_seg(src_adt), V, " [listed]" if ok else " and is not in the enumerated set"), new.where())
                    continue
                back_vs = set()
                for M in Ms:
                    back_vs |= bmap.get(M, set())
                ok = len(Ms) == 1 and back_vs == {V}
                if not ok and key in exc:
                    used_exc.add(key)
                    ok = True
                ctx.ob("R20.2", key, ok, "source variant %s -> mirror %s -> source %s" % (V, sorted(Ms), sorted(back_vs)), new.where())
            ctx.ob("R20.2", "%s:no-catch-all" % short, not f_catch,
                   "saving direction matches every source variant explicitly" if not f_catch else
                   "a catch-all arm handles source variants %s" % sorted(f_catch), new.where())
            unread = [M for M in mvars if M not in bmap]
            ctx.ob("R20.2", "%s:all-mirror-variants-loaded" % short, not unread and not b_catch,
                   "every mirror variant has a loading arm" if not unread else "mirror variants without a loading arm: %s" % unread, back.where())
            # payload fields of enum variants obey the loading rule too: every payload of a mirror
            # variant is read in its arm (moved out of self)
    ctx.floor("struct mirrors analysed", n_struct, 60)
    ctx.floor("enum mirrors analysed", n_enum - len(unsupported), 18)
    ctx.floor("field flows checked", n_fields, 250)
    ctx.floor("variant flows checked", n_variants, 80)
    ctx.notes.append("enum mirrors whose shape is not analysed: %s" % unsupported)

    # ---------------- R20.4 gates
    LOW = "cairo_lang_lowering::"
    lcf = F.find1(LOW + "cache::", name="load_cached_crate_functions", kind="Fn")
    ctx.analysed(lcf)
    bc = [c for c in lcf.calls() if c.name() == "blob_content"]
    ok = len(bc) == 1 and "f:cache_file" in op_prov(lcf, bc[0].args[-1], 12) and "c:crate_config" in op_prov(lcf, bc[0].args[-1], 12)
    ctx.ob("R20.4", "load_cached_crate_functions:blob<-crate_config.cache_file", ok,
           "the blob read is the crate's configured cache_file (None => no cached lowerings)", lcf.where())
    cml = F.tracked_body(LOW + "db::", name="cached_multi_lowerings")
    ctx.analysed(cml)
    cs = [c for c in cml.calls() if c.name() == "load_cached_crate_functions"]
    ctx.ob("R20.4", "cached_multi_lowerings<-load_cached_crate_functions", len(cs) == 1 and 0 in cml.flows_to(place_local(cs[0].dest)),
           "cached lowerings are exactly what the loader returns for that crate", cml.where())
    pml = F.tracked_body(LOW + "db::", name="priv_function_with_body_multi_lowering")
    ctx.analysed(pml)
    from .guards import CallResult, check_guard
    src = [c.bb for c in pml.calls() if c.name() == "lower_semantic_function"]
    cm = [c for c in pml.calls() if c.name() == "cached_multi_lowerings"]
    ok = False
    msg = "shape not recognised"
    if src and len(cm) == 1:
        toks = op_prov(pml, cm[0].args[-1], 10)
        own = "c:owning_crate" in toks and ("a:function_id" in toks or "n:function_id" in toks)
        # lowering from source happens only when the crate has no cached lowerings
        none_only = False
        for bb, t in pml.switches():
            info, _ = bool_condition(pml, bb)
            if info and info[0] == "disc" and info[2] == "core::option::Option" and \
                    place_local(cm[0].dest) in pml.derives_from(place_local(info[1])):
                from .guards import succ_for_value
                s = succ_for_value(pml, bb, 1)  # Some(map)
                none_only = not (set(src) & pml.reachable_blocks(s, avoid={bb}))
                break
        ok = own and none_only
        msg = "cache consulted for the function's own crate: %s; source lowering only when the crate has no cache: %s" % (own, none_only)
    ctx.ob("R20.4", "priv_function_with_body_multi_lowering:cache-before-source", ok, msg, pml.where())
    _interning_tables(ctx, F)
    _cache_validity(ctx, F)
    _order_preserved(ctx, F, cached, methods, exc, used_exc)
    for k in sorted(set(exc) - used_exc):
        ctx.ob("R20.x", "stale-exception:" + k, False, "exception table row no longer matches anything", EXC)
    _controls(ctx, F, cached, methods)


def variant_map(F, fn, group, src_is_cached, dst_adt, self_adt=None):
    """Extracts {source variant -> set(destination variants)} from the top-level match of `fn`.
    Returns (matched adt, map, catch_all_variants, panicking_variants) or None."""
    # the match: a switch on the discriminant of an enum that is (saving) not a mirror / (loading) self
    cands = []
    for bb, t in fn.switches():
        info, _ = bool_condition(fn, bb)
        if not info or info[0] != "disc":
            continue
        adt = info[2]
        if adt not in F.adts or F.adts[adt]["kind"] != "enum":
            continue
        if src_is_cached and adt != self_adt:
            continue
        if not src_is_cached and (is_cached(adt) or not adt.startswith("cairo_lang_")):
            continue
        cands.append((bb, adt))
    if not cands:
        return None
    # outermost candidate (dominates the others)
    cands.sort(key=lambda x: sum(1 for y in cands if fn.dominates(x[0], y[0])), reverse=True)
    sw, adt = cands[0]
    names = [v["name"] for v in F.adts[adt]["variants"]]
    out = {}
    catch, panics = set(), set()
    edges = switch_edges(fn, sw)
    explicit = set(v for v, s in edges if v != "otherwise")
    for v, s in edges:
        if fn.is_unreachable_block(s):
            continue
        vs = [names[v]] if v != "otherwise" else [n for i, n in enumerate(names) if i not in explicit]
        if v == "otherwise" and vs:
            catch.update(vs)
        region = fn.reachable_blocks(s, avoid={sw})
        # shared join blocks after the match are reachable from every arm: only aggregates in blocks
        # that are NOT reachable from every other arm are attributed to this arm
        dests = set()
        for b in region:
            for st in fn.blocks[b]["s"]:
                if st[0] == "a" and st[2][0] == "agg" and st[2][1] == "adt":
                    q = st[2][2]
                    if (dst_adt is not None and q == dst_adt) or (dst_adt is None and not is_cached(q) and q.startswith("cairo_lang_")
                                                                    and F.adts.get(q, {}).get("kind") == "enum"):
                        dests.add((q, st[2][4]))
        # exclusive: remove aggregates also reachable from other arms
        others = set()
        for v2, s2 in edges:
            if s2 != s and not fn.is_unreachable_block(s2):
                others |= fn.reachable_blocks(s2, avoid={sw})
        excl = set()
        for b in region - others:
            for st in fn.blocks[b]["s"]:
                if st[0] == "a" and st[2][0] == "agg" and st[2][1] == "adt":
                    q = st[2][2]
                    if (dst_adt is not None and q == dst_adt) or (dst_adt is None and (q, st[2][4]) in dests):
                        excl.add((q, st[2][4]))
        diverges = all(fn.blocks[b]["t"][0] != "ret" for b in region) if region else True
        for name in vs:
            out.setdefault(name, set()).update(x[1] for x in excl)
            if not excl and diverges:
                panics.add(name)
    if dst_adt is None:
        # loading: destination enum = the most common adt among dests
        pass
    return adt, out, catch, panics


def _interning_tables(ctx, F):
    """R20.5: the de-duplicating tables of the cache saving contexts (`x_ids: Map<Id, IdCached>` + `x_ids_lookup: Vec<..>`)
    store, for a key, a payload that is a function of that key alone.  A routine that interns under key K a payload taken
    from another argument shares one cache entry between values that only agree on K."""
    n = 0
    for p, f in sorted(F.fns.items()):
        if not f.body or "::cache::" not in p or f.kind == "Closure":
            continue
        pushes = [c for c in f.calls() if c.name() == "push" and c.args and any(t.startswith("f:") and t.endswith("_lookup") for t in op_prov(f, c.args[0], 8))]
        inserts = [c for c in f.calls() if c.name() == "insert" and len(c.args) >= 3 and any(t.startswith("f:") and t.endswith("_ids") for t in op_prov(f, c.args[0], 8))]
        if not pushes or not inserts:
            continue
        n += 1
        ctx.analysed(f)
        # parameters: the context(s), the key (flows into the map key), the others
        key_params, other = set(), set()
        for i in range(1, f.argc + 1):
            ty = f.local_ty(i) or ""
            if "Context" in ty or ty.startswith("&") and "dyn" in ty:
                continue
            fl = f.flows_to(i) | {i}
            if any(op_local(ins.args[1]) in fl for ins in inserts):
                key_params.add(i)
            else:
                other.add(i)
        bad = []
        for c in pushes:
            src = f.derives_from(op_local(c.args[1])) | {op_local(c.args[1])} if op_local(c.args[1]) is not None else set()
            for i in sorted(other):
                if i in src:
                    bad.append("`%s` (parameter %d)" % (f.local_name(i) or "?", i))
        ctx.ob("R20.5", "interning:%s" % fn_key(p), bool(key_params) and not bad,
               "the payload stored under the key is computed from the key alone" if key_params and not bad else
               ("the entry interned under the key is built from %s, which is not the key: every later value with the same key silently gets the payload "
                "of the first one" % ", ".join(sorted(set(bad))) if bad else "no parameter flows into the key of the table"), f.where())
    ctx.floor("interning routines of the cache saving contexts", n, 20)


REORDER = re.compile(r"^(sort(ed)?(_unstable)?(_by)?(_key|_cached_key)?|reverse|rev|dedup(_by|_by_key)?|swap|swap_remove|swap_remove_\w+|"
                     r"rotate_left|rotate_right|select_nth_unstable\w*|unique(_by)?|shuffle|partition\w*|sort_keys|sort_by_keys)$")
UNORDERED_TARGET = re.compile(r"(BTreeMap|BTreeSet|std::collections::hash::(map::HashMap|set::HashSet)|hashbrown::|UnorderedHash(Map|Set))")


UNORDERED_SRC = re.compile(r"(unordered_hash_map::UnorderedHashMap|unordered_hash_set::UnorderedHashSet|collections::hash::map::HashMap|"
                           r"collections::hash::set::HashSet|hashbrown::(map::)?HashMap|hashbrown::(set::)?HashSet)")


def _from_unordered(f, c):
    """The sequence being re-ordered was read out of a hashed container: it has no order of its own to lose (sorting it is
    what makes the blob deterministic)."""
    rl = op_local(c.args[0]) if c.args else None
    if rl is None:
        return False
    rl = f.resolve_copy(rl)
    for x in f.calls():
        if x.name() in ("iter", "into_iter", "keys", "values", "into_keys", "into_values", "drain") and \
                UNORDERED_SRC.search(x.path + " " + x.via):
            d = place_local(x.dest)
            if d is not None and rl in f.flows_to(d):
                return True
    return False


def reorder_calls(fns):
    """Calls in `fns` that change the order (or the multiplicity) of the elements of a sequence: the slice / Vec / iterator
    re-ordering operations, and collecting into a container that has an order of its own."""
    out = []
    for f in fns:
        for c in f.calls():
            if c.macros and any(m in ("derive", "Debug") for m in c.macros):
                continue
            nm = c.name()
            if REORDER.match(nm):
                if _from_unordered(f, c):
                    continue
                out.append((f, c, nm))
            elif nm in ("collect", "from_iter", "extend") and any(UNORDERED_TARGET.search(str(g)) for g in c.gargs):
                out.append((f, c, nm + " into " + UNORDERED_TARGET.search(" ".join(map(str, c.gargs))).group(1)))
    return out


def _order_preserved(ctx, F, cached, methods, exc, used_exc):
    """R20.7: the sequences of a cached crate come back in the order they had.  Order is semantic in what the caches hold
    (statements, block ids, match arms, and - seed C20-5 - the remapping of a Goto, whose iteration order is the order of the
    store_temps before a join), and nothing in a mirror type says which of its sequences could be re-ordered harmlessly; so
    neither direction of a mirror, nor any other routine of the cache modules, may apply an operation that re-orders or
    de-duplicates a sequence or collects it into a container with an order of its own.  One obligation per mirror pair
    (both directions, closures included), one for the remaining routines of each cache module."""
    n_pairs = 0
    seen = set()
    for p in sorted(cached):
        ms = methods.get(p, {})
        short = p.split("::")[0].replace("cairo_lang_", "") + "::" + p.rsplit("::", 1)[1]
        fns = []
        for f in ms.values():
            fns += fn_group(F, f)
        if not fns:
            continue
        seen.update(f.path for f in fns)
        n_pairs += 1
        hits = reorder_calls(fns)
        key = "order:" + short
        ok = not hits
        msg = "no re-ordering operation in %s" % sorted(ms) if ok else "; ".join(
            "%s calls `%s` (%s)" % (last_seg(f.root), what, c.where()) for f, c, what in hits)
        if not ok and key in exc:
            used_exc.add(key)
            ok = True
            msg += " [exception: %s]" % exc[key]
        ctx.ob("R20.7", key, ok, msg, hits[0][1].where() if hits else fns[0].where())
    ctx.floor("mirror pairs checked for order preservation", n_pairs, 100)
    rest = defaultdict(list)
    for f in F.fns.values():
        if "::cache::" in f.path and f.path not in seen and not f.d.get("trait", "").startswith(("core::fmt", "serde::")):
            rest[f.path.split("::")[0]].append(f)
    for crate, fns in sorted(rest.items()):
        hits = reorder_calls(fns)
        key = "order:%s::cache:other-routines" % crate.replace("cairo_lang_", "")
        ok = not hits
        msg = "%d routines, no re-ordering operation" % len(fns) if ok else "; ".join(
            "%s calls `%s` (%s)" % (fn_key(f.path), what, c.where()) for f, c, what in hits)
        if not ok and key in exc:
            used_exc.add(key)
            ok = True
        ctx.ob("R20.7", key, ok, msg, hits[0][1].where() if hits else "")


def _controls(ctx, F, cached, methods):
    import copy
    from .lib import Fn
    p = "cairo_lang_lowering::cache::VariableCached"
    emb = methods[p]["embed"]
    d = copy.deepcopy(emb.d)
    # swap the two same-typed mirror fields on the loading side
    def swap(x):
        if isinstance(x, list):
            if len(x) == 4 and x[0] == "f" and x[3] == p and x[2] == "droppable":
                x[2] = "destruct_impl"
                x[1] = 2
                return
            for y in x:
                swap(y)
        elif isinstance(x, dict):
            for y in x.values():
                swap(y)
    swap(d["body"])
    m = Fn(d, emb.crate)
    bad = False
    for f, i, st in aggregates([m] + F.closures_of(emb), lambda q: q.endswith("::TypeInfo")):
        for n, o in zip(st[2][5], st[2][3]):
            if n == "droppable" and "f:droppable" not in op_prov(f, o, 14):
                bad = True
    ctx.control("droppable/destruct_impl swapped on load", bad)


def _cache_validity(ctx, F):
    """R20.6: a crate cache is used only if *every* recorded piece of metadata equals that of the loading compilation.

    `CachedCrateMetadata` records what the cached phases depend on besides the sources (compiler version, crate
    settings, global flags).  The validity test is a hand-written equality over that struct: for each field there must be
    a comparison of the field of the freshly computed metadata with the same field of the stored one - the fields
    themselves, not a projection of them through workspace code (a filtered flag set compares less than was recorded) -
    whose mismatch edge ends in the refusal (a diverging call)."""
    from .lib import place_proj
    from .guards import bool_edge_value
    meta = [p for p in F.adts if p.endswith("::CachedCrateMetadata")]
    ctx.ob("R20.6", "metadata-type", len(meta) == 1, "one CachedCrateMetadata type (%s)" % meta, "")
    if len(meta) != 1:
        return
    M = meta[0]
    fields = [fn_ for v in F.adts[M]["variants"] for fn_, _ in v["fields"]]
    validators = []
    for p, f in F.fns.items():
        if not f.body or f.kind == "Closure":
            continue
        if not any(M in (f.local_ty(i) or "") and (f.local_ty(i) or "").startswith("&") for i in range(1, f.argc + 1)):
            continue
        news = [c for c in f.calls() if c.path.startswith(M + "::") and c.name() == "new"]
        if news:
            validators.append((f, news))
    ctx.ob("R20.6", "validator-found", len(validators) >= 1, "%d routine(s) compare a stored CachedCrateMetadata with a freshly computed one: %s" % (
        len(validators), [last_seg(f.path) for f, _ in validators]), "")

    def direct_field(f, op, depth=0):
        """(base local, field) if the operand is (a reference to) a field of a local, reached through copies / re-borrows only"""
        pl = op_place(op)
        if pl is None or depth > 6:
            return None
        names = [e for e in place_proj(pl) if isinstance(e, list) and e[0] == "f"]
        if names:
            last = names[-1]
            if str(last[2]).isdigit() or last[2] is None:
                # a component of a local tuple: `let (a, b) = (&x.f, &y.f);`
                d = f.single_def(place_local(pl))
                if d and d[0] == "stmt" and d[3][0] == "agg" and d[3][1] == "tuple" and len(names) == 1:
                    idx = last[1]
                    if isinstance(idx, int) and idx < len(d[3][3]):
                        return direct_field(f, d[3][3][idx], depth + 1)
                return None
            return (place_local(pl), last[2])
        d = f.single_def(place_local(pl))
        if d and d[0] == "stmt":
            rv = d[3]
            if rv[0] == "ref":
                return direct_field(f, ["c", rv[1]], depth + 1)
            if rv[0] in ("use", "cast"):
                return direct_field(f, rv[1] if rv[0] == "use" else rv[2], depth + 1)
        return None
    for f, news in validators:
        ctx.analysed(f)
        fresh = {place_local(c.dest) for c in news}
        params = {i for i in range(1, f.argc + 1) if M in (f.local_ty(i) or "")}
        compared = {}
        for c in f.calls():
            if len(c.args) != 2 or c.name() not in ("eq", "ne", "eq_unordered", "cmp", "partial_cmp"):
                continue
            a, b = direct_field(f, c.args[0]), direct_field(f, c.args[1])
            if not a or not b or a[1] != b[1]:
                continue
            bases = {a[0], b[0]}
            def root(l):
                # a parameter reference is dereferenced through a copy
                d = f.single_def(l)
                while d and d[0] == "stmt" and d[3][0] in ("use", "ref") and l not in params and l not in fresh:
                    pl = op_place(d[3][1]) if d[3][0] == "use" else d[3][1]
                    if pl is None:
                        break
                    l = place_local(pl)
                    d = f.single_def(l)
                return l
            roots = {root(x) for x in bases}
            if not (roots & fresh and roots & params):
                continue
            # the mismatch edge refuses: one successor of the switch on the result diverges
            sw = [bb for bb, t in f.switches() if (bool_condition(f, bb)[0] or (None,))[0] == "call" and bool_condition(f, bb)[0][1].bb == c.bb]
            refuses = False
            for bb in sw:
                for s_ in f.succ(bb):
                    seen, todo = set(), [s_]
                    while todo:
                        x = todo.pop()
                        if x in seen or len(seen) > 6:
                            continue
                        seen.add(x)
                        t = f.blocks[x]["t"]
                        if t[0] == "call" and t[4] is None:
                            refuses = True
                        elif t[0] in ("call", "goto"):
                            todo.extend(f.succ(x))
            compared[a[1]] = (c, refuses)
        # ... or the two records are compared as a whole by a derived (complete) equality
        for c in f.calls():
            if len(c.args) != 2 or c.name() not in ("eq", "ne"):
                continue
            ls = [op_local(x) for x in c.args]
            if None in ls or any(direct_field(f, x) for x in c.args):
                continue
            tys = [(f.local_ty(l) or "").lstrip("&").strip() for l in ls]
            if not all(t.startswith(M) for t in tys):
                continue
            derived = any(g.d.get("derived") for q, g in F.fns.items() if q.startswith("<" + M) and "PartialEq" in q and g.name in ("eq", "ne"))
            if derived:
                for fld in fields:
                    compared.setdefault(fld, (c, True))
        for fld in fields:
            c, refuses = compared.get(fld, (None, False))
            ctx.ob("R20.6", "%s:%s" % (last_seg(f.path), fld), c is not None and refuses,
                   "the stored `%s` is compared with the freshly computed one, field against field, and a mismatch is refused" % fld if c is not None and refuses else
                   ("no comparison of the field `%s` of the stored metadata with the same field of the freshly computed metadata was found (the fields "
                    "themselves, not something computed from them): the cache is accepted under metadata it was not produced with" % fld if c is None else
                    "the comparison of `%s` does not lead to a refusal" % fld), (c.where() if c else f.where()))
        callers = [c for c in F.callers_of(f.path)]
        ctx.ob("R20.6", "%s:called" % last_seg(f.path), len(callers) >= 1, "called from %s" % sorted(set(last_seg(c.fn.root) for c in callers)), f.where())
