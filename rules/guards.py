"""Guard obligations: "rejection R is taken exactly when condition C holds, cannot be bypassed,
and its error edge cannot fall through into acceptance".

Used by the rule sets whose clauses are of the form *accept only if checked* (C15, C14, C19, C08,
C07, C09).  All functions work on one `Fn` (MIR facts of one function or closure).
"""
from collections import deque

from .lib import (op_local, op_const, op_place, place_local, place_proj, place_fields,
                  rvalue_operands, rvalue_places, last_seg, strip_generics)

CMP_OPS = {"Eq": "eq", "Ne": "ne", "Lt": "lt", "Le": "le", "Gt": "gt", "Ge": "ge"}
NEG = {"eq": "ne", "ne": "eq", "lt": "ge", "ge": "lt", "gt": "le", "le": "gt"}
SWAP = {"eq": "eq", "ne": "ne", "lt": "gt", "gt": "lt", "le": "ge", "ge": "le"}
CMP_METHODS = {"eq": "eq", "ne": "ne", "lt": "lt", "le": "le", "gt": "gt", "ge": "ge"}


# ----------------------------------------------------------------------------------------
# provenance of a value: the fields, calls, constants and names found on its backward slice

def prov(fn, local, depth=12, _seen=None):
    """Set of tokens describing where the value of `local` comes from:
    f:<field>  a field read;  c:<fn name>  a call result;  k:<value>  a constant;
    n:<name>  a named source variable;  a:<name>  a function argument;  v:<Variant>  a downcast;
    agg:<Adt::Variant>  an aggregate."""
    if _seen is None:
        _seen = set()
    toks = set()
    if local in _seen or depth < 0:
        return toks
    _seen.add(local)
    nm = fn.local_name(local)
    if nm:
        toks.add("n:" + nm)
        if 1 <= local <= fn.argc:
            toks.add("a:" + nm)
    if 1 <= local <= fn.argc:
        toks.add("arg:%d" % local)
    for c in _mut_calls(fn).get(local, ()):
        # `x.push(v)`, `map.insert(k, v)`: the referent of a `&mut` argument derives from the other arguments
        toks.add("mut:" + c.name())
        for a in c.args:
            al = op_local(a)
            if al is not None and fn.resolve_copy(al) != local:
                _prov_op(fn, a, toks, depth - 1, _seen)
    for d in fn.defs().get(local, []):
        if d[0] == "stmt":
            rv = d[3]
            _prov_rv(fn, rv, toks, depth, _seen)
        elif d[0] == "call":
            c = d[2]
            toks.add("c:" + c.name())
            toks.add("call:" + strip_generics(c.path))
            for ga in c.gargs:
                toks.add("targ:" + last_seg(ga))
            if "via" in c.callee:
                toks.add("c:" + last_seg(c.callee["via"]))
            for a in c.args:
                _prov_op(fn, a, toks, depth - 1, _seen)
    return toks


def _mut_calls(fn):
    """local -> calls that receive a `&mut` reference to it (together with other arguments)."""
    if getattr(fn, "_mutcalls", None) is None:
        m = {}
        for c in fn.calls():
            if len(c.args) < 2:
                continue
            for a in c.args:
                al = op_local(a)
                if al is not None and fn.local_ty(al).startswith("&mut"):
                    tgt = fn.resolve_copy(al)
                    # `x.insert(..)` through DerefMut / index_mut / get_mut: follow the receiver
                    for _ in range(4):
                        d = fn.single_def(tgt)
                        if d and d[0] == "call" and d[2].name() in (
                                "deref_mut", "as_mut", "borrow_mut", "index_mut", "get_mut", "as_mut_slice") and d[2].args:
                            a0 = op_local(d[2].args[0])
                            if a0 is None:
                                break
                            tgt = fn.resolve_copy(a0)
                        else:
                            break
                    m.setdefault(tgt, []).append(c)
        fn._mutcalls = m
    return fn._mutcalls


def control_fields(fn, local, depth=3):
    """Field names read by the `match`/`if` discriminants that select between the definitions of
    `local` (control dependence of a value built per arm, e.g. a fieldless enum conversion)."""
    out = set()
    defs = [d for d in fn.defs().get(local, []) if d[0] == "stmt"]
    blocks = set(d[1] for d in defs)
    if len(blocks) < 2:
        # a single definition copying another local: follow it
        if len(defs) == 1 and depth > 0 and defs[0][3][0] == "use" and op_local(defs[0][3][1]) is not None:
            return control_fields(fn, op_local(defs[0][3][1]), depth - 1)
        return out
    for bb, t in fn.switches():
        info, _ = bool_condition(fn, bb)
        if info and info[0] == "disc" and all(fn.dominates(bb, b) for b in blocks):
            out.update(f for f in place_fields(info[1]) if f is not None)
    return out


def _prov_place(fn, p, toks, depth, seen):
    for e in place_proj(p):
        if isinstance(e, list):
            if e[0] == "f" and e[2] is not None:
                toks.add("f:" + str(e[2]))
            elif e[0] == "d":
                toks.add("v:" + str(e[1]))
            elif e[0] == "i":
                toks |= prov(fn, e[1], depth - 1, seen)
    toks |= prov(fn, place_local(p), depth - 1, seen)


def _prov_op(fn, op, toks, depth, seen):
    if op[0] in ("c", "m"):
        _prov_place(fn, op[1], toks, depth, seen)
    elif op[0] == "k":
        if op[1] in ("int", "str"):
            toks.add("k:%s" % (op[2],))
        if len(op) > 4 and op[4]:
            toks.add("const:" + last_seg(op[4]))
        if op[1] == "fn":
            toks.add("fnref:" + last_seg(op[2].get("path", "")))
        if op[1] == "static":
            toks.add("static:" + last_seg(op[2]))
        if op[1] == "promoted":
            pb = fn.const_of_promoted(op[2])
            if pb:
                for bl in pb["blocks"]:
                    for st in bl["s"]:
                        if st[0] == "a":
                            for o in rvalue_operands(st[2]):
                                if o[0] == "k" and o[1] in ("int", "str"):
                                    toks.add("k:%s" % (o[2],))
                                if o[0] == "k" and len(o) > 4 and o[4]:
                                    toks.add("const:" + last_seg(o[4]))


def _prov_rv(fn, rv, toks, depth, seen):
    k = rv[0]
    if k in ("ref", "disc"):
        _prov_place(fn, rv[1], toks, depth, seen)
        return
    if k == "agg" and rv[1] == "adt":
        toks.add("agg:%s::%s" % (last_seg(rv[2]), rv[4]))
    if k == "bin":
        toks.add("op:" + rv[1])
    for o in rvalue_operands(rv):
        _prov_op(fn, o, toks, depth, seen)


def op_prov(fn, op, depth=12):
    toks = set()
    _prov_op(fn, op, toks, depth, set())
    return toks


def marker_matches(toks, marker):
    """marker: token string, or list of tokens (all required), or None (anything)."""
    if marker is None:
        return True
    if isinstance(marker, str):
        marker = [marker]
    for m in marker:
        if m.startswith("~"):
            if not any(m[1:] in x for x in toks):
                return False
        elif m not in toks:
            return False
    return True


# ----------------------------------------------------------------------------------------
# loops

def natural_loops(fn):
    """header -> set(body blocks) for natural loops (merged per header)."""
    if getattr(fn, "_loops", None) is not None:
        return fn._loops
    idom = fn.dominators()
    loops = {}
    for b in idom:
        for s in fn.succ(b):
            if s in idom and fn.dominates(s, b):
                body = loops.setdefault(s, {s})
                dq = deque([b])
                while dq:
                    x = dq.popleft()
                    if x in body:
                        continue
                    body.add(x)
                    for p in fn.pred(x):
                        if p in idom:
                            dq.append(p)
    fn._loops = loops
    return loops


def innermost_loop(fn, bb):
    best = None
    for h, body in natural_loops(fn).items():
        if bb in body and (best is None or len(body) < len(best[1])):
            best = (h, body)
    return best


# ----------------------------------------------------------------------------------------
# condition extraction for a switch block

def bool_condition(fn, bb):
    """For a SwitchInt on a boolean: returns (kind, payload, flip) describing the tested
    condition with negations folded into `flip`:
      ('cmp', rel, opA, opB)  |  ('call', Call)  |  ('other', info)
    and a function edge_value(succ) -> True/False (value of the *original* condition on that edge)."""
    t = fn.blocks[bb]["t"]
    info = fn.switch_info(bb)
    flip = False
    depth = 0
    while info and depth < 6:
        depth += 1
        if info[0] == "un" and info[1] == "Not":
            flip = not flip
            l = op_local(info[2])
            info = _def_info(fn, l) if l is not None else None
            continue
        if info[0] == "use":
            pl = op_place(info[1])
            if pl is None:
                break
            if not isinstance(pl, int) and any(isinstance(e, list) and e[0] == "f" for e in pl[1]):
                info = ("place", pl)
                break
            info = _def_info(fn, place_local(pl))
            continue
        break
    return info, flip


def _def_info(fn, l):
    d = fn.single_def(l)
    if d is None:
        return ("local", l)
    if d[0] == "stmt":
        rv = d[3]
        if rv[0] == "disc":
            return ("disc", rv[1], rv[2])
        if rv[0] == "bin":
            return ("bin", rv[1], rv[2], rv[3])
        if rv[0] == "un":
            return ("un", rv[1], rv[2])
        if rv[0] == "use":
            return ("use", rv[1])
        return ("local", l)
    if d[0] == "call":
        return ("call", d[2])
    return ("local", l)


def switch_edges(fn, bb):
    """list of (value or 'otherwise', successor)."""
    t = fn.blocks[bb]["t"]
    return [(v, s) for v, s in t[2]] + [("otherwise", t[3])]


def succ_for_value(fn, bb, value):
    """Successor taken when the switch operand equals `value` (explicit arm, else `otherwise`)."""
    t = fn.blocks[bb]["t"]
    for v, s in t[2]:
        if v == value:
            return s
    return t[3]


def follow_const_bool(fn, start, limit=8):
    """`matches!(..)` lowers to per-arm `_b = const true/false` followed by a join that switches on `_b`.
    Starting in an arm, follows straight-line blocks and resolves that switch with the constant assigned on
    the way; returns the block the arm really continues in."""
    env = {}
    bb = start
    for _ in range(limit):
        for st in fn.blocks[bb]["s"]:
            if st[0] == "a" and isinstance(st[1], int) and st[2][0] == "use":
                k = op_const(st[2][1])
                if k and k[0] == "int":
                    env[st[1]] = k[1]
                elif op_local(st[2][1]) in env:
                    env[st[1]] = env[op_local(st[2][1])]
        t = fn.blocks[bb]["t"]
        if t[0] == "goto":
            bb = t[1]
            continue
        if t[0] == "switch":
            l = op_local(t[1])
            if l in env:
                return succ_for_value(fn, bb, env[l])
        return bb
    return bb


def bool_edge_value(fn, bb, succ):
    """Truth value of the switch operand on the edge to `succ` (None if ambiguous)."""
    vals = set()
    for v, s in switch_edges(fn, bb):
        if s == succ:
            vals.add(False if v == 0 else True)
    if len(vals) == 1:
        return vals.pop()
    return None


# ----------------------------------------------------------------------------------------
# matchers

class Cmp:
    """A comparison guard: the rejection is taken iff `a REL b`."""

    def __init__(self, rel, a, b):
        self.rel, self.a, self.b = rel, a, b

    def describe(self):
        return "%s %s %s" % (self.a, self.rel, self.b)

    def match(self, fn, bb):
        """Returns None if this switch is not a comparison of (a, b); else a function
        rel_on_true -> canonical relation (oriented a,b) that holds when the switch operand is true."""
        info, flip = bool_condition(fn, bb)
        if not info:
            return None
        if info[0] == "bin" and info[1] in CMP_OPS:
            rel = CMP_OPS[info[1]]
            x, y = info[2], info[3]
        elif info[0] == "call" and info[1].name() in CMP_METHODS and len(info[1].args) == 2 and (
                "cmp::Partial" in info[1].via or "cmp::Partial" in info[1].path or
                info[1].callee.get("trait", "").startswith("core::cmp::Partial")):
            rel = CMP_METHODS[info[1].name()]
            x, y = info[1].args
        else:
            return None
        px, py = op_prov(fn, x), op_prov(fn, y)
        if marker_matches(px, self.a) and marker_matches(py, self.b):
            oriented = rel
        elif marker_matches(px, self.b) and marker_matches(py, self.a):
            oriented = SWAP[rel]
        else:
            return None
        if flip:
            oriented = NEG[oriented]
        return oriented


class CallResult:
    """A guard on the result of a call: bool result (`when` True/False) or an Option/Result
    discriminant (`when` 'Some'/'None'/'Ok'/'Err'/'Break'/'Continue' ...)."""

    def __init__(self, callee, when, arg=None):
        self.callee, self.when, self.arg = callee, when, arg

    def describe(self):
        return "%s(..) is %s" % (self.callee, self.when)

    def _callee_ok(self, fn, c):
        if not (self.callee in c.path or self.callee in c.via):
            return False
        if self.arg is not None:
            ok = False
            for a in c.args:
                if marker_matches(op_prov(fn, a), self.arg):
                    ok = True
            return ok
        return True

    def match(self, fn, bb):
        info, flip = bool_condition(fn, bb)
        if not info:
            return None
        if info[0] == "call":
            if self._callee_ok(fn, info[1]):
                return ("bool", flip)
            # e.g. `.is_some()` / `.is_none()` / `.is_err()` on the call's result
            nm = info[1].name()
            if nm in ("is_some", "is_none", "is_ok", "is_err") and info[1].args:
                l = op_local(info[1].args[0])
                if l is not None and self._derives_from_callee(fn, l):
                    return ("is", nm, flip)
            if self._derives_from_callee(fn, place_local(info[1].dest)):
                return ("bool", flip)
            return None
        if info[0] == "place":
            if self._derives_from_callee(fn, place_local(info[1])):
                return ("bool", flip)
            return None
        if info[0] == "disc":
            l = place_local(info[1])
            if self._derives_from_callee(fn, l):
                return ("disc", info[2])
        return None

    def _derives_from_callee(self, fn, l, depth=8):
        seen = set()
        dq = deque([(l, 0)])
        while dq:
            x, d = dq.popleft()
            if x in seen or d > depth:
                continue
            seen.add(x)
            for df in fn.defs().get(x, []):
                if df[0] == "call":
                    c = df[2]
                    if self._callee_ok(fn, c):
                        return True
                    # pass-through adapters keep provenance (Try::branch, map_err, ok_or, as_ref ...)
                    if c.name() in ("branch", "map_err", "ok_or", "ok_or_else", "as_ref", "as_mut",
                                    "into", "from", "deref", "cloned", "copied", "ok", "map"):
                        for a in c.args:
                            al = op_local(a)
                            if al is not None:
                                dq.append((al, d + 1))
                elif df[0] == "stmt":
                    for p in rvalue_places(df[3]):
                        dq.append((place_local(p), d + 1))
        return False


class Field:
    """A guard on a boolean field: rejects when `<..>.field` is `when`."""

    def __init__(self, field, when, base=None):
        self.callee = None
        self.field, self.when, self.base = field, when, base

    def describe(self):
        return ".%s is %s" % (self.field, self.when)

    def match(self, fn, bb):
        info, flip = bool_condition(fn, bb)
        if not info or info[0] != "place":
            return None
        fields = place_fields(info[1])
        if not fields or fields[-1] != self.field:
            return None
        if self.base is not None and not marker_matches(prov(fn, place_local(info[1])), self.base):
            return None
        return ("bool", flip)


# ----------------------------------------------------------------------------------------

def blocks_constructing(fn, adt_suffix, variant):
    """Blocks of fn that build the aggregate <..adt_suffix>::variant."""
    out = []
    for i, j, st in fn.stmts():
        if st[0] == "a" and st[2][0] == "agg" and st[2][1] == "adt":
            if st[2][2].endswith(adt_suffix) and (variant is None or st[2][4] == variant):
                out.append(i)
    return sorted(set(out))


def error_return_blocks(fn, adt_suffix, variant):
    """Blocks that build `Err(<adt>::<variant>..)` (possibly boxed/converted): the value must flow
    into an `Err` aggregate, not into an eagerly evaluated argument such as `ok_or(E)`."""
    out = set()
    for i, j, st in fn.stmts():
        if st[0] == "a" and st[2][0] == "agg" and st[2][1] == "adt" and \
                st[2][2] == "core::result::Result" and st[2][4] == "Err" and st[2][3]:
            l = op_local(st[2][3][0])
            depth = 0
            while l is not None and depth < 6:
                depth += 1
                l = fn.resolve_copy(l)
                d = fn.single_def(l)
                if not d:
                    break
                if d[0] == "stmt" and d[3][0] == "agg" and d[3][1] == "adt":
                    if d[3][2].endswith(adt_suffix) and (variant is None or d[3][4] == variant):
                        out.add(i)
                    break
                if d[0] == "call" and d[2].name() in ("new", "into", "from") and d[2].args:
                    l = op_local(d[2].args[0])
                    continue
                break
    return out


def error_sink_blocks(fn):
    """Blocks that start an error return: `Err{..}` aggregates and `?` residual conversions."""
    out = set()
    for i, j, st in fn.stmts():
        if st[0] == "a" and st[2][0] == "agg" and st[2][1] == "adt" and \
                st[2][2] == "core::result::Result" and st[2][4] == "Err":
            out.add(i)
    for c in fn.calls():
        if c.name() == "from_residual":
            out.add(c.bb)
    return out


class GuardResult:
    def __init__(self):
        self.ok = False
        self.msg = ""
        self.site = None
        self.line = None
        self.detail = {}


CURRENT_FACTS = None


def _adapter_idiom(fn, matcher, err):
    """`callee(..).ok_or(E)` / `.ok_or_else(|| E)` (for a rejection on None) and `.map_err(|_| E)` (on Err), with
    the resulting Result handed back to the caller, is the same obligation as `match callee(..) { None => return
    Err(E), .. }`: the rejection is taken exactly when the call yields None / Err and cannot fall through.  The
    adapter may sit in a closure of fn that is mapped over the elements (`ids.map(|id| ..).collect::<Result<..>>()`)."""
    if not isinstance(matcher, CallResult) or matcher.when not in ("None", "Err") or err is None or CURRENT_FACTS is None:
        return None
    names = ("ok_or", "ok_or_else") if matcher.when == "None" else ("map_err",)
    group = [fn] + CURRENT_FACTS.closures_of(fn)
    for h in group:
        for c in h.calls():
            if c.name() not in names or not c.args:
                continue
            l = op_local(c.args[0])
            if l is None or not matcher._derives_from_callee(h, l):
                continue
            # the error handed to the adapter
            built = False
            if len(c.args) > 1:
                al = op_local(c.args[1])
                d = h.single_def(h.resolve_copy(al)) if al is not None else None
                if d and d[0] == "stmt" and d[3][0] == "agg" and d[3][1] == "closure":
                    cf = CURRENT_FACTS.fns.get(d[3][2])
                    built = cf is not None and bool(blocks_constructing(cf, err[0], err[1]))
                elif al is not None:
                    src = h.derives_from(al) | {al}
                    built = any(st[0] == "a" and st[2][0] == "agg" and st[2][1] == "adt" and st[2][2].endswith(err[0])
                                and (err[1] is None or st[2][4] == err[1]) and place_local(st[1]) in src for _, _, st in h.stmts())
            if not built:
                continue
            # the Result goes back: to h's return value (directly or through `?`)
            fl = h.flows_to(place_local(c.dest))
            if 0 not in fl:
                continue
            if h is not fn:
                # h is a closure: its results must be collected into the Result that fn returns
                ok_outer = False
                for x in fn.calls():
                    if any((fn.single_def(fn.resolve_copy(op_local(a))) or (None,))[0] == "stmt" and
                           fn.single_def(fn.resolve_copy(op_local(a)))[3][0] == "agg" and fn.single_def(fn.resolve_copy(op_local(a)))[3][1] == "closure"
                           and fn.single_def(fn.resolve_copy(op_local(a)))[3][2] == h.path for a in x.args if op_local(a) is not None):
                        if 0 in fn.flows_to(place_local(x.dest)):
                            ok_outer = True
                if not ok_outer:
                    continue
            r = GuardResult()
            r.ok = True
            r.site = c.bb
            r.line = c.line
            r.msg = "`%s(..).%s(%s::%s)` handed back to the caller: rejects exactly when the result is %s" % (
                matcher.callee.strip(":"), c.name(), err[0], err[1], matcher.when)
            return r
    return None


def filter_foreach_idiom(fn, callee, when, sink_name):
    """`iter.filter(|x| [!]callee(..)).for_each(|x| sink(..))` is `for x in iter { if [!]callee(..) { sink(..) } }`:
    the sink runs for exactly the elements on which callee(..) is `when`.  Returns a GuardResult or None."""
    F = CURRENT_FACTS
    if F is None:
        return None

    def closure_of(x, i):
        if len(x.args) <= i:
            return None
        l = op_local(x.args[i])
        d = fn.single_def(fn.resolve_copy(l)) if l is not None else None
        if d and d[0] == "stmt" and d[3][0] == "agg" and d[3][1] == "closure":
            return F.fns.get(d[3][2])
        return None
    for fc in fn.calls():
        if fc.name() != "filter":
            continue
        pred = closure_of(fc, 1)
        if pred is None:
            continue
        # polarity of the predicate: it returns callee(..) or !callee(..)
        tests = [c for c in pred.calls() if callee.strip(":") == c.name() or callee in c.path]
        if len(tests) != 1:
            continue
        t = tests[0]
        tl = place_local(t.dest)
        neg = None
        for _, _, st in pred.stmts():
            if st[0] == "a" and place_local(st[1]) == 0:
                rv = st[2]
                if rv[0] == "un" and rv[1] == "Not" and pred.resolve_copy(op_local(rv[2])) in (tl, pred.resolve_copy(tl)):
                    neg = True
                elif rv[0] == "use" and op_local(rv[1]) is not None and pred.resolve_copy(op_local(rv[1])) in (tl, pred.resolve_copy(tl)):
                    neg = False
        if place_local(t.dest) == 0:
            neg = False
        if neg is None:
            continue
        runs_when = (not neg)           # the element is kept when the predicate is true
        if runs_when != bool(when):
            continue
        # the filtered iterator is consumed by for_each whose closure calls the sink
        fl = fn.flows_to(place_local(fc.dest))
        for ec in fn.calls():
            if ec.name() == "for_each" and ec.args and op_local(ec.args[0]) in fl:
                act = closure_of(ec, 1)
                if act is not None and any(c.name() == sink_name for c in act.calls()):
                    r = GuardResult()
                    r.ok = True
                    r.site = fc.bb
                    r.line = fc.line
                    r.msg = "`.filter(|..| %s%s(..)).for_each(|..| %s(..))`: %s runs exactly for the elements on which %s(..) is %s" % (
                        "!" if neg else "", callee.strip(":"), sink_name, sink_name, callee.strip(":"), when)
                    return r
    return None


def check_guard(fn, matcher, err=None, expect_rel=None, sinks=None, bypass="auto", protects=None, entry=0):
    """The guard obligation.

    fn         the function (or closure) expected to contain the guard
    matcher    Cmp / CallResult
    err        (adt_suffix, variant): the error constructed on the rejecting edge; None = any error
               sink (Err aggregate / `?` residual)
    expect_rel for Cmp: the canonical relation that must select the rejecting edge
               for CallResult: the `when` value is taken from the matcher
    sinks      explicit rejecting blocks (overrides err)
    bypass     'auto': not bypassable w.r.t. the function's returns, or w.r.t. the innermost loop's
               back edges when the guard sits in a loop; 'none': skip the bypass check
    """
    r = GuardResult()
    live = fn.live_blocks()
    cands = []
    for bb, t in fn.switches():
        if bb not in live:
            continue
        m = matcher.match(fn, bb)
        if m is not None:
            cands.append((bb, m))
    if not cands:
        alt = _adapter_idiom(fn, matcher, err)
        if alt is not None:
            return alt
        r.msg = "no test of `%s` found" % matcher.describe()
        return r
    if sinks is None:
        if err is not None:
            sinks = set(error_return_blocks(fn, err[0], err[1])) or set(blocks_constructing(fn, err[0], err[1]))
            if not sinks:
                r.msg = "rejection %s::%s is not constructed in this function" % err
                return r
        else:
            sinks = error_sink_blocks(fn)
    sinks = set(sinks)
    all_err = error_sink_blocks(fn) | sinks
    msgs = []
    for bb, m in cands:
        t = fn.blocks[bb]["t"]
        line = t[4]
        succs = fn.succ(bb)
        err_succ = [s for s in succs if (fn.reachable_blocks(s, avoid={bb}) & sinks) or s in sinks]
        # keep only the successors from which *every* path to return/back to bb hits a sink:
        strict_err = [s for s in err_succ if _all_paths_hit(fn, s, sinks, bb)]
        pass_succ = [s for s in succs if s not in strict_err and not fn.is_unreachable_block(s)]
        if not strict_err:
            if err_succ:
                msgs.append("L%s: the rejecting edge of `%s` can fall through into acceptance" % (line, matcher.describe()))
            else:
                msgs.append("L%s: test of `%s` does not lead to the rejection" % (line, matcher.describe()))
            continue
        if not pass_succ:
            msgs.append("L%s: both edges reject" % line)
            continue
        # polarity
        if isinstance(matcher, Cmp):
            vals = set(bool_edge_value(fn, bb, s) for s in strict_err)
            if len(vals) != 1 or None in vals:
                msgs.append("L%s: ambiguous rejecting edge" % line)
                continue
            on_true = vals.pop()
            rel = m if on_true else NEG[m]
            if expect_rel is not None and rel != expect_rel:
                msgs.append("L%s: rejects when `%s %s %s`, expected `%s`" % (line, matcher.a, rel, matcher.b, expect_rel))
                continue
            r.detail["rel"] = rel
        else:
            got = _edge_when(fn, bb, m, strict_err)
            if got is None or got != matcher.when:
                msgs.append("L%s: rejects when result is %s, expected %s" % (line, got, matcher.when))
                continue
        # bypass
        if protects is not None:
            reach = fn.reachable_blocks(entry, avoid={bb} | all_err)
            hit = [p for p in protects if p in reach]
            if hit:
                msgs.append("L%s: guard `%s` does not dominate the protected site (bb%s reachable without it)" % (line, matcher.describe(), hit[0]))
                continue
            if not protects:
                msgs.append("L%s: protected site not found" % line)
                continue
        elif bypass != "none":
            bp = _bypass(fn, bb, all_err)
            if bp:
                msgs.append("L%s: guard `%s` can be bypassed (%s)" % (line, matcher.describe(), bp))
                continue
        r.ok = True
        r.site = bb
        r.line = line
        r.msg = "guard `%s` at L%s rejects on edge -> bb%s" % (matcher.describe(), line, strict_err)
        return r
    r.msg = "; ".join(msgs)
    return r


def _all_paths_hit(fn, start, sinks, guard_bb):
    """Every path from `start` to a return (or back to the guard) passes a sink block."""
    if start in sinks:
        return True
    reach = fn.reachable_blocks(start, avoid=sinks)
    for b in reach:
        if fn.blocks[b]["t"][0] == "ret":
            return False
        if b == guard_bb:
            return False
    # also must actually reach a sink
    return bool(fn.reachable_blocks(start) & sinks)


def _edge_when(fn, bb, m, err_succ):
    """Names the call-result value on the rejecting edge."""
    if m[0] == "bool":
        vals = set(bool_edge_value(fn, bb, s) for s in err_succ)
        if len(vals) != 1 or None in vals:
            return None
        v = vals.pop()
        if m[1]:
            v = not v
        return v
    if m[0] == "is":
        vals = set(bool_edge_value(fn, bb, s) for s in err_succ)
        if len(vals) != 1 or None in vals:
            return None
        v = vals.pop()
        if m[2]:
            v = not v
        pos = {"is_some": ("Some", "None"), "is_none": ("None", "Some"),
               "is_ok": ("Ok", "Err"), "is_err": ("Err", "Ok")}[m[1]]
        return pos[0] if v else pos[1]
    if m[0] == "disc":
        adt = m[1]
        names = {"core::option::Option": {0: "None", 1: "Some"},
                 "core::result::Result": {0: "Ok", 1: "Err"},
                 "core::ops::control_flow::ControlFlow": {0: "Continue", 1: "Break"}}.get(adt)
        vals = set()
        for v, s in switch_edges(fn, bb):
            if s in err_succ:
                vals.add(v)
        if names is None:
            return ",".join(str(v) for v in sorted(vals, key=str))
        if "otherwise" in vals:
            # otherwise edge: the remaining discriminant
            explicit = set(v for v, s in switch_edges(fn, bb) if v != "otherwise")
            rest = set(names) - explicit
            vals.discard("otherwise")
            vals |= rest
        if len(vals) != 1:
            return None
        return names.get(vals.pop())
    return None


def _bypass(fn, gbb, err_blocks):
    """Returns a description of a bypass path, or None."""
    lp = innermost_loop(fn, gbb)
    if lp is not None:
        h, body = lp
        if gbb == h:
            lp = None
    if lp is not None:
        h, body = lp
        # inside the loop body: can the header be reached again from its successors without the guard?
        avoid = {gbb} | set(err_blocks)
        seen = set()
        dq = deque(s for s in fn.succ(h) if s in body and s not in avoid)
        while dq:
            x = dq.popleft()
            if x in seen:
                continue
            seen.add(x)
            for s in fn.succ(x):
                if s == h:
                    return "an iteration of the loop at bb%d completes without the test (via bb%d)" % (h, x)
                if s in body and s not in avoid and s not in seen:
                    dq.append(s)
        return None
    rets = [b for b in fn.live_blocks() if fn.blocks[b]["t"][0] == "ret"]
    reach = fn.reachable_blocks(0, avoid={gbb} | set(err_blocks))
    for b in rets:
        if b in reach:
            return "a return is reachable from entry without the test"
    return None


# ----------------------------------------------------------------------------------------
# simpler building blocks

def call_dominates(fn, guard_pred, target_pred, ok_edge_only=True):
    """Every call matching target_pred is dominated by (the Ok edge of) a call matching guard_pred.
    Returns (ok, msg, n_targets)."""
    guards = fn.calls_to(guard_pred)
    targets = fn.calls_to(target_pred)
    if not targets:
        return False, "no call matching target", 0
    if not guards:
        return False, "no guard call found", len(targets)
    for tcall in targets:
        ok = False
        for g in guards:
            gb = ok_block_after(fn, g) if ok_edge_only else g.target
            if gb is None:
                continue
            if fn.dominates(gb, tcall.bb):
                ok = True
                break
        if not ok:
            return False, "call at L%s is not dominated by the guard's success edge" % tcall.line, len(targets)
    return True, "", len(targets)


def ok_block_after(fn, call):
    """For `x = guard(..)?` (or match on its Result): the block taken when the result is Ok /
    Continue.  For a guard returning () or a non-Result value: the block after the call."""
    dl = place_local(call.dest)
    ty = fn.local_ty(dl)
    if not (ty.startswith("core::result::Result<") or ty.startswith("core::option::Option<")):
        return call.target
    # find a switch whose discriminant derives from the call result
    start = call.target
    if start is None:
        return None
    seen = set()
    dq = deque([start])
    m = CallResult(call.path, None)
    while dq:
        b = dq.popleft()
        if b in seen:
            continue
        seen.add(b)
        t = fn.blocks[b]["t"]
        if t[0] == "switch":
            info, flip = bool_condition(fn, b)
            if info and info[0] == "disc" and info[2] in (
                    "core::ops::control_flow::ControlFlow", "core::result::Result", "core::option::Option"):
                l = place_local(info[1])
                if dl in fn.derives_from(l):
                    good = {"core::ops::control_flow::ControlFlow": 0, "core::result::Result": 0,
                            "core::option::Option": 1}[info[2]]
                    s = succ_for_value(fn, b, good)
                    return None if fn.is_unreachable_block(s) else s
            continue
        for s in fn.succ(b):
            dq.append(s)
    return None
