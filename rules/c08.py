"""C08 - error-free programs compile; ownership violations are rejected (clause: every detected
use-after-move / missing drop reaches a diagnostic, and Sierra generation is gated on the
diagnostics check)."""
import os
from collections import defaultdict

from .guards import (Cmp, CallResult, Field, check_guard, prov, op_prov, bool_condition, bool_edge_value, switch_edges,
                     ok_block_after, _all_paths_hit, succ_for_value, follow_const_bool)
from .lib import fn_key, op_local, op_place, place_local, place_fields, rvalue_places, last_seg, strip_generics, AnchorError

EXPLANATION = (
    "Decides the structural clause of the second sentence of C08: whenever the borrow checker's demand analysis "
    "meets a second use of a variable (map insert returns Some) or an undemanded variable (remove returns None / "
    "key absent in an arm), the reporter callback is reached on every path (R8.1); the callbacks report "
    "VariableMoved when `copyable` is Err, VariableNotDropped unless droppable / destruct / panic-destruct applies "
    "with the right impl and function, DesnappingANonCopyableType on Desnap of a non-copyable (R8.2); and every "
    "call that leads to a Sierra-program query is dominated by the success edge of DiagnosticsReporter::ensure / "
    "ensure_diagnostics / !check, or lies in a function whose callers all are, except documented-precondition "
    "entry points (R8.3). Totality of the back end on error-free programs (first sentence) is not decided.")
ASSUMPTIONS = ["IndexMap::insert returns the previous value; swap_remove returns the removed value",
               "DiagnosticsReporter::ensure returns Err iff check returned true (checked as R8.3:ensure-iff-check)"]
EXHAUSTIVE = True
TABLE = os.path.join(os.path.dirname(__file__), "..", "tables", "c08_entry_preconditions.tsv")
GATES = ("ensure", "ensure_diagnostics")


def run(ctx):
    F = ctx.load(None)
    _usage_walk(ctx, F)
    LOW = "cairo_lang_lowering::borrow_check::"

    def g(rule, key, fn, matcher, **kw):
        ctx.analysed(fn)
        r = check_guard(fn, matcher, **kw)
        ctx.ob(rule, key, r.ok, r.msg, fn.where(r.line))
        return r

    def calls_named(fn, name):
        return [c for c in fn.calls() if c.name() == name]

    # ---------------- R8.1 demand callbacks
    D = LOW + "demand::Demand"
    vu = F.find1(D, name="variables_used")
    g("R8.1", "variables_used:insert=Some=>dup", vu, CallResult("::insert", "Some"), sinks={c.bb for c in calls_named(vu, "dup")})
    ar = F.find1(D, name="apply_remapping")
    g("R8.1", "apply_remapping:insert=Some=>dup", ar, CallResult("::insert", "Some"), sinks={c.bb for c in calls_named(ar, "dup")},
      bypass="none")
    vi = F.find1(D, name="variables_introduced")
    g("R8.1", "variables_introduced:remove=None=>drop_aux", vi, CallResult("swap_remove", "None"),
      sinks={c.bb for c in calls_named(vi, "drop_aux")})
    md = F.find1(D, name="merge_demands")
    r_md = check_guard(md, CallResult("contains_key", False), sinks={c.bb for c in calls_named(md, "drop_aux")}, bypass="none")
    if not r_md.ok:
        from .guards import filter_foreach_idiom
        r_md = filter_foreach_idiom(md, "contains_key", False, "drop_aux") or r_md
    ctx.analysed(md)
    ctx.ob("R8.1", "merge_demands:!contains_key=>drop_aux", r_md.ok, r_md.msg, md.where(r_md.line))
    for fn, nm in ((vu, "dup"), (ar, "dup"), (vi, "drop_aux"), (md, "drop_aux")):
        cs = [c for h_ in [fn] + F.closures_of(fn) for c in calls_named(h_, nm)]
        ctx.ob("R8.1", "%s:calls-%s" % (fn.name, nm), len(cs) >= 1 and all(c.callee.get("trait", "").endswith("DemandReporter") for c in cs),
               "%s reports through DemandReporter::%s (%d sites)" % (fn.name, nm, len(cs)), fn.where())

    # ---------------- R8.2 reporter callbacks
    BC = LOW + "BorrowChecker"
    dup = F.find1(BC, "DemandReporter", name="dup")
    rep = {c.bb for c in calls_named(dup, "report_by_location")}
    g("R8.2", "dup:copyable=Err=>VariableMoved", dup, CallResult("::clone", "Err", arg="f:copyable"), sinks=rep)
    ctx.ob("R8.2", "dup:kind=VariableMoved", _reports_kind(dup, "VariableMoved"), "the diagnostic reported is VariableMoved", dup.where())
    da = F.find1(BC, "DemandReporter", name="drop_aux")
    ctx.analysed(da)
    rep = {c.bb for c in calls_named(da, "report_by_location")}
    ctx.ob("R8.2", "drop_aux:kind=VariableNotDropped", len(rep) == 1 and _reports_kind(da, "VariableNotDropped"),
           "the diagnostic reported is VariableNotDropped", da.where())
    def registers(path):
        """Is this the routine (a closure of drop_aux or a helper method) that records a potential destructor call?"""
        g_ = F.fns.get(path)
        if g_ is None or not g_.body:
            return False
        return any(c_.name() == "push" and c_.args and any("potential_destruct_calls" in t_ for t_ in op_prov(h_, c_.args[0], 10))
                   for h_ in [g_] + F.closures_of(g_) for c_ in h_.calls())
    acf = [c for c in da.calls() if c.path != da.path and registers(c.path)]
    # ... or records it itself (the helper inlined)
    direct = [c for c in da.calls() if c.name() == "push" and c.args and any("potential_destruct_calls" in t_ for t_ in op_prov(da, c.args[0], 10))]
    acf = acf + direct
    ok_edges = set()
    drop_sw = None
    for bb, t in da.switches():
        info, _ = bool_condition(da, bb)
        if info and info[0] == "disc" and info[2] == "core::result::Result" and "f:droppable" in prov(da, place_local(info[1]), 8):
            drop_sw = bb
            ok_edges.add(succ_for_value(da, bb, 0))
    through = rep | {c.bb for c in acf} | ok_edges
    ctx.ob("R8.2", "drop_aux:every-path-drops-destructs-or-reports",
           drop_sw is not None and len(acf) == 2 and da.must_pass(0, da.return_blocks(), through),
           "every path to return passes: droppable Ok edge, a destruct call registration, or report_by_location "
           "(droppable test %s, %d registration sites)" % ("found" if drop_sw is not None else "MISSING", len(acf)), da.where())
    # each registration pairs the right impl with the right function
    def source_fields(fn, op, depth=10):
        """Named struct fields the operand's value was read from, following copies, `Ok(..)` payloads, tuples and
        value-preserving calls (clone / into) - but not the provenance of the struct that holds the field."""
        out, todo, seen = set(), [(op, 0)], set()
        while todo:
            o, d_ = todo.pop()
            pl = op_place(o)
            if pl is None or d_ > depth:
                continue
            names = [x for x in place_fields(pl) if x and not x.isdigit()]
            if names:
                out.add(names[-1])
                continue
            l = place_local(pl)
            if l in seen:
                continue
            seen.add(l)
            for df in fn.defs().get(l, []):
                if df[0] == "stmt":
                    rv = df[3]
                    if rv[0] in ("use", "cast"):
                        todo.append((rv[1] if rv[0] == "use" else rv[2], d_ + 1))
                    elif rv[0] == "ref":
                        todo.append((["c", rv[1]], d_ + 1))
                    elif rv[0] == "agg":
                        for x in rv[3]:
                            todo.append((x, d_ + 1))
                elif df[0] == "call" and df[2].name() in ("clone", "into", "from", "deref", "as_ref", "to_owned", "borrow") and df[2].args:
                    todo.append((df[2].args[0], d_ + 1))
        return out
    pairs = []
    for c in acf:
        toks = set()
        for a in c.args[1:]:
            toks |= set("f:" + x for x in source_fields(da, a))
            if c in direct:
                toks |= {t for t in op_prov(da, a, 16) if t in ("f:destruct_impl", "f:panic_destruct_impl", "f:destruct_fn", "f:panic_destruct_fn")}
        pairs.append((("destruct_impl" if "f:destruct_impl" in toks else "") + ("|panic_destruct_impl" if "f:panic_destruct_impl" in toks else ""),
                      ("destruct_fn" if "f:destruct_fn" in toks else "") + ("|panic_destruct_fn" if "f:panic_destruct_fn" in toks else ""), c))
    want = {("destruct_impl", "destruct_fn"), ("|panic_destruct_impl", "|panic_destruct_fn")}
    ctx.ob("R8.2", "drop_aux:impl-function-pairing", set((a, b) for a, b, _ in pairs) == want,
           "destruct registrations pair %s" % sorted((a.strip("|"), b.strip("|")) for a, b, _ in pairs), da.where())
    for a, b, c in pairs:
        fld = a.strip("|")
        if not fld:
            continue
        r = check_guard(da, CallResult("::clone", "Err", arg="f:" + fld), sinks=rep | ({x.bb for x in acf} - {c.bb}) | ok_edges, bypass="none")
        # the registration must be on the Ok edge of its own impl result
        okb = None
        for bb, t in da.switches():
            info, _ = bool_condition(da, bb)
            if info and info[0] == "disc" and info[2] == "core::result::Result" and ("f:" + fld) in prov(da, place_local(info[1]), 8) \
                    and "f:droppable" not in prov(da, place_local(info[1]), 8):
                okb = succ_for_value(da, bb, 0)
        ctx.ob("R8.2", "drop_aux:%s-registration-on-Ok-edge" % fld, okb is not None and da.dominates(okb, c.bb),
               "the %s call is registered only when `%s` is Ok" % (b.strip("|"), fld), c.where())
    # the panic destructor applies only when the block ends with panic
    pd = [c for a, b, c in pairs if "panic" in a]
    ok = False
    if pd:
        for bb, t in da.switches():
            info, _ = bool_condition(da, bb)
            if info and info[0] == "disc" and info[2].endswith("PanicState") and da.dominates(bb, pd[0].bb):
                adt = F.adts.get(info[2])
                idx = [v["name"] for v in adt["variants"]].index("EndsWithPanic") if adt else None
                if idx is None:
                    continue
                yes = follow_const_bool(da, succ_for_value(da, bb, idx))
                others = [follow_const_bool(da, s) for s in da.succ(bb) if s != succ_for_value(da, bb, idx) and not da.is_unreachable_block(s)]
                # the registration is reachable from the EndsWithPanic edge only
                ok = pd[0].bb in (da.reachable_blocks(yes, avoid={bb}) | {yes}) and yes not in others and not any(
                    pd[0].bb in (da.reachable_blocks(s, avoid={bb}) | {s}) for s in others)
    ctx.ob("R8.2", "drop_aux:panic-destruct-only-under-EndsWithPanic", ok, "panic_destruct is considered only for PanicState::EndsWithPanic", da.where())
    vs = F.find1(BC, "Analyzer", name="visit_stmt")
    # ---- R8.4 the analyzer itself: every statement's outputs are introduced and its inputs used, and at a call that
    # may panic the current demand is merged with the panic branch - under no further condition
    ctx.analysed(vs)
    for nm in ("variables_introduced", "variables_used"):
        cs = calls_named(vs, nm)
        ctx.ob("R8.4", "visit_stmt:%s-on-every-path" % nm, bool(cs) and vs.must_pass(0, vs.return_blocks(), {c.bb for c in cs}),
               "every path through visit_stmt passes Demand::%s" % nm, vs.where())
    md_calls = calls_named(vs, "merge_demands")
    if len(md_calls) != 1:
        ctx.ob("R8.4", "visit_stmt:panicable-call-merge", False, "expected one merge_demands call in visit_stmt, found %d" % len(md_calls), vs.where())
    else:
        mc = md_calls[0]
        extra = []
        seen_ok = set()
        for bb, t in vs.switches():
            succs = [s_ for s_ in vs.succ(bb) if not vs.is_unreachable_block(s_)]
            reach = [mc.bb in (vs.reachable_blocks(s_, avoid={bb}) | {s_}) for s_ in succs]
            if not any(reach) or all(reach):
                continue                      # does not decide whether the merge happens
            info, _ = bool_condition(vs, bb)
            toks = set()
            desc = "?"
            if info and info[0] == "disc":
                toks = prov(vs, place_local(info[1]), 8)
                desc = "match on %s" % last_seg(info[2] or "?")
                if (info[2] or "").endswith("Statement"):
                    seen_ok.add("statement-kind")
                    continue
                if (info[2] or "").endswith("result::Result") and "c:signature" in toks:
                    seen_ok.add("signature-ok")
                    continue
            elif info and info[0] in ("place", "field"):
                toks = prov(vs, place_local(info[1]), 8) | set("f:" + x for x in place_fields(info[1]))
                desc = "test of %s" % sorted(x for x in toks if x.startswith("f:"))[:3]
            elif info and info[0] == "call":
                toks = set()
                for a in info[1].args:
                    toks |= op_prov(vs, a, 8)
                desc = "test of %s(..)" % info[1].name()
            else:
                l_ = op_local(vs.blocks[bb]["t"][1])
                toks = prov(vs, l_, 8) if l_ is not None else set()
                desc = "test of %s" % sorted(x for x in toks if x.startswith(("f:", "c:")))[:3]
            if "f:panicable" in toks and "f:aux" not in toks:
                seen_ok.add("panicable")
                continue
            extra.append("%s (%s)" % (desc, vs.where(t[4] if len(t) > 4 else None)))
        ctx.ob("R8.4", "visit_stmt:panicable-call-merge", not extra and "panicable" in seen_ok,
               "the merge with the panic branch happens for every Call whose signature is panicable (decided only by: %s)" % sorted(seen_ok) if not extra else
               "the merge with the panic branch at a panicable call is skipped under a further condition: %s - the only check that the values alive "
               "across the call can be dropped on the panic path is then not made" % "; ".join(extra), mc.where())
    rep = {c.bb for c in calls_named(vs, "report_by_location")}
    g("R8.2", "visit_stmt:Desnap:copyable=Err=>report", vs, CallResult("::clone", "Err", arg="f:copyable"), sinks=rep, bypass="none")
    ctx.ob("R8.2", "visit_stmt:kind=DesnappingANonCopyableType", _reports_kind(vs, "DesnappingANonCopyableType"),
           "the diagnostic reported is DesnappingANonCopyableType", vs.where())

    # ---------------- R8.3 gating of Sierra generation
    ens = F.find1("cairo_lang_compiler::diagnostics::DiagnosticsReporter", name="ensure")
    r = check_guard(ens, CallResult("::check", True), bypass="none")
    ctx.ob("R8.3", "ensure-iff-check", r.ok, "DiagnosticsReporter::ensure returns Err exactly when check() is true: " + r.msg, ens.where(r.line))
    ed = F.find1("cairo_lang_compiler::", name="ensure_diagnostics", kind="Fn")
    ctx.ob("R8.3", "ensure_diagnostics-calls-ensure", all(
        any(c.name() == "ensure" for g_ in F.with_closures(ed) for c in g_.calls()) for _ in [0]),
        "ensure_diagnostics delegates to DiagnosticsReporter::ensure on both paths", ed.where())
    table = {}
    if os.path.exists(TABLE):
        for line in open(TABLE):
            if line.strip() and not line.startswith("#"):
                parts = line.rstrip("\n").split("\t")
                table[parts[0]] = parts[1] if len(parts) > 1 else ""
    used = set()
    sinks = {"get_sierra_program", "get_sierra_program_for_functions"}
    sink_paths = set()
    needs = {}      # fn path -> reason it needs gating by callers
    gated_entries = []
    work = True
    rounds = 0
    verified = set()
    while work and rounds < 6:
        work = False
        rounds += 1
        for p, f in F.fns.items():
            if not f.body or f.crate in ("cairo_lang_sierra_generator",) or p in needs or p in verified:
                continue
            if "::test" in p or "test_utils" in p or f.crate in ("cairo_lang_test_utils", "tests"):
                continue
            cs = [c for c in f.calls() if (c.name() in sinks and ("SierraGenGroup" in c.via or "sierra_generator" in c.path or c.path in needs
                                                                    or "cairo_lang_compiler::get_sierra_program_for_functions" in c.path))
                  or c.path in needs]
            if not cs:
                continue
            root = F.fns.get(f.root, f)
            all_ok = True
            for c in cs:
                if not _gated(F, f, c):
                    all_ok = False
            if all_ok:
                verified.add(p)
                gated_entries.append((p, len(cs)))
            else:
                needs[f.root if f.root in F.fns else p] = True
                needs[p] = True
                work = True
    for p, n in sorted(gated_entries):
        ctx.ob("R8.3", "gated:" + fn_key(p), True, "every call leading to a Sierra-program query (%d) is dominated by the diagnostics gate" % n,
               F.fns[p].where())
    # ungated functions: fine if every caller was handled (they are in needs/verified); roots must be documented
    called = defaultdict(set)
    for q, f in F.fns.items():
        for c in f.calls():
            if c.path in needs:
                called[c.path].add(q)
    for p in sorted(needs):
        f = F.fns.get(p)
        if f is None or "{closure" in p:
            continue
        if called.get(p):
            continue
        key = fn_key(p)
        if key in table:
            used.add(key)
            ctx.ob("R8.3", "precondition:" + key, True, "ungated entry point with documented precondition: " + table[key], f.where())
        else:
            ctx.ob("R8.3", "ungated:" + key, False,
                   "reaches a Sierra-program query without the diagnostics gate and has no gated caller", f.where())
    for k in sorted(set(table) - used):
        ctx.ob("R8.3", "stale:" + k, False, "table row no longer matches", TABLE)
    ctx.floor("gated compile entry points", len(gated_entries), 4)
    _own_function_only(ctx, F)
    ctx.floor("C08 obligations", len(ctx.obligations), 18)
    _controls(ctx, F)


def _own_function_only(ctx, F):
    """R8.6.  The lowering diagnostics of one lowered function (a semantic function or a generated loop / closure body) are
    computed by a query that takes that function's id.  The back end decides per lowered function too (a loop body is its own,
    self-recursive function: it gets its own withdraw_gas, its own panic branch).  So every analysis the query consults - the
    lowering, the borrow check, the cycle test that gates the out-of-gas drop check, the inline diagnostics - must be asked
    about the query's own function: an argument of the id type of the parameter has to *be* the parameter.  Asking about a
    derived function (the enclosing semantic function, say) silently skips the checks of every generated body (seed C08-5).
    Ids of other types derived from it (the base semantic function, used for locations) are not constrained."""
    qs = [f for p, f in F.fns.items() if p.startswith("<cairo_lang_lowering::db::") and "diagnostics" in p and
          p.endswith("::execute::inner_") and f.argc >= 2]
    n = 0
    for f in qs:
        idl = [i for i in range(1, f.argc + 1) if f.local_ty(i).startswith("cairo_lang_lowering::ids::FunctionWithBodyId")]
        if len(idl) != 1:
            continue
        me = idl[0]
        ty = f.local_ty(me).split("<")[0]
        ctx.analysed(f)
        name = f.path.split("::_::")[-1].split("_Configuration_")[0]
        for c in f.calls():
            for k, a in enumerate(c.args):
                l = op_local(a)
                if l is None:
                    continue
                t = f.local_ty(l).lstrip("&").replace("mut ", "")
                if not t.startswith(ty):
                    continue
                n += 1
                ok = f.resolve_copy(l) == me
                ctx.ob("R8.6", "%s:%s#%d" % (name, c.name(), k), ok,
                       "`%s` is asked about the query's own function" % c.name() if ok else
                       "`%s` is asked about another function than the one whose diagnostics are computed (the argument does not "
                       "derive from the parameter by copies): the checks of generated loop / closure bodies are decided by the "
                       "properties of a different function" % c.name(), c.where())
    ctx.floor("per-function diagnostics queries (lowering)", len([1 for f in qs]), 1)
    ctx.floor("function-id arguments checked (R8.6)", n, 4)


def _reports_kind(fn, variant):
    for _, _, st in fn.stmts():
        if st[0] == "a" and st[2][0] == "agg" and st[2][1] == "adt" and st[2][4] == variant:
            l = place_local(st[1])
            for c in fn.calls():
                if c.name() == "report_by_location":
                    for a in c.args:
                        al = op_local(a)
                        if al is not None and l in fn.derives_from(al):
                            return True
    return False


def _gated(F, f, call):
    """The call is dominated by the success edge of a diagnostics gate in the same function body, or
    (for a closure) the closure is created after the gate in its parent function."""
    if _gated_in(F, f, call.bb):
        return True
    if f.kind == "Closure" and f.root in F.fns:
        parent = F.fns[f.root]
        for i, j, st in parent.stmts():
            if st[0] == "a" and st[2][0] == "agg" and st[2][1] == "closure" and f.path.startswith(st[2][2]):
                if _gated_in(F, parent, i):
                    return True
    return False


def _gated_in(F, f, bb):
    class _C:
        pass
    call = _C()
    call.bb = bb
    for gname in GATES:
        for gc in f.calls():
            if gc.name() == gname and gc.bb != call.bb:
                okb = ok_block_after(f, gc)
                if okb is not None and f.dominates(okb, call.bb):
                    return True
    # `if reporter.check(db) { return Err }`
    r = check_guard(f, CallResult("::check", True), protects=[call.bb], bypass="none")
    if r.ok:
        return True
    # a local helper closure that performs the check and is `?`-propagated (e.g. `check_diags()?`)
    for gc in f.calls():
        if "{closure" in gc.path and gc.path in F.fns:
            h = F.fns[gc.path]
            if any(c.name() in GATES + ("check",) for c in h.calls()):
                okb = ok_block_after(f, gc)
                if okb is not None and f.dominates(okb, call.bb):
                    return True
    return False


def _controls(ctx, F):
    import copy
    from .lib import Fn
    # dup that no longer reports: the Err edge falls through
    dup = F.find1("cairo_lang_lowering::borrow_check::BorrowChecker", "DemandReporter", name="dup")
    d = copy.deepcopy(dup.d)
    for bl in d["body"]["blocks"]:
        t = bl["t"]
        if t[0] == "call" and t[1].get("path", "").endswith("report_by_location"):
            t[1]["path"] = "core::mem::drop"
    m = Fn(d, dup.crate)
    r = check_guard(m, CallResult("::clone", "Err", arg="f:copyable"), sinks={c.bb for c in m.calls() if c.name() == "report_by_location"})
    ctx.control("dup without a report", not r.ok)


def value_slice(f, op, limit=400):
    """(field names read, call names) on the way a value is computed - through copies, re-borrows, projections and the
    non-`&mut` arguments of calls; mutation through `&mut` arguments is not followed."""
    from .lib import rvalue_operands, place_proj
    flds, names, todo, seen = set(), set(), [op], set()
    while todo and len(seen) < limit:
        o = todo.pop()
        pl = op_place(o)
        if pl is None:
            continue
        for e in place_proj(pl):
            if isinstance(e, list) and e[0] == "f" and e[2] is not None:
                flds.add(str(e[2]))
        l = place_local(pl)
        if l in seen:
            continue
        seen.add(l)
        for d in f.defs().get(l, []):
            if d[0] == "stmt":
                rv = d[3]
                if rv[0] == "ref":
                    todo.append(["c", rv[1]])
                elif rv[0] == "disc":
                    todo.append(["c", rv[1]])
                else:
                    todo.extend(rvalue_operands(rv))
            elif d[0] == "call":
                c = d[2]
                names.add(c.name())
                for a in c.args:
                    la = op_local(a)
                    if la is not None and (f.local_ty(la) or "").startswith("&mut") and c.name() not in ("next", "next_back"):
                        continue          # (an iterator is read through `&mut`: `next(&mut iter)` yields what the iterator holds)
                    todo.append(a)
    return flds, names


def _usage_walk(ctx, F):
    """R8.5: the variable-usage analysis reaches every child expression of every expression kind.

    Closures and loops get their captured variables (and loop functions their parameters) from `Usages::handle_expr`; a
    child expression that is not walked contributes no usage, and lowering then meets a variable the closure / loop
    function does not have (`as_var_usage` unwraps a None: an internal error on an error-free program).  For every arm
    of the `match` on the expression kind and every field of the variant's payload that holds a child expression:
      * `ExprId`: every path through the arm calls a walker of `Usages` on (something read through) the field, or records
        a usage computed from the expression the field names (the snapshot-of-a-variable shortcut);
      * `Option<ExprId>`: the same on every path but the `None` edge;
      * `Vec<..ExprId..>`: a walker is called on the elements (an empty vector has nothing to walk)."""
    hs = [f for f in F.find("cairo_lang_semantic::usage::Usages", name="handle_expr") if f.body and f.kind == "AssocFn"]
    if len(hs) != 1:
        raise AnchorError("Usages::handle_expr resolves to %d functions" % len(hs))
    h = hs[0]
    ctx.analysed(h)
    E = [p for p in F.adts if p.endswith("::expr::objects::Expr")]
    if len(E) != 1:
        raise AnchorError("semantic Expr enum not found")
    variants = F.adts[E[0]]["variants"]
    top = None
    for bb, t in h.switches():
        si = h.switch_info(bb)
        if si and si[0] == "disc" and (si[2] or "").endswith("::expr::objects::Expr") and (top is None or h.dominates(bb, top)):
            top = bb
    if top is None:
        raise AnchorError("the match on the expression kind was not found in handle_expr")
    t = h.blocks[top]["t"]
    rets = h.return_blocks()
    EXPR_ID = "expr::objects::ExprId"
    n_fields = 0
    usage_exc, used_exc = {}, set()
    exc_path = os.path.join(os.path.dirname(os.path.dirname(os.path.abspath(__file__))), "tables", "c08_usage_exceptions.tsv")
    if os.path.exists(exc_path):
        for line in open(exc_path):
            if line.strip() and not line.startswith("#"):
                k_, alt_, why_ = line.rstrip("\n").split("\t")
                usage_exc[k_] = (alt_, why_)
    for v, tgt in t[2]:
        if not isinstance(v, int) or v >= len(variants):
            continue
        var = variants[v]
        pay_tys = [ty for _, ty in var["fields"]]
        if not pay_tys:
            continue
        pay = strip_generics(pay_tys[0])
        adt = F.adts.get(pay)
        if adt is None:
            continue
        region = h.reachable_blocks(tgt)
        calls = [c for c in h.calls() if c.bb in region]
        for fld, fty in [x for vv in adt["variants"] for x in vv["fields"]]:
            if EXPR_ID not in fty:
                continue
            kind = "id" if strip_generics(fty).endswith(EXPR_ID) and not fty.startswith(("core::option", "alloc::vec")) else (
                "opt" if fty.startswith("core::option::Option<") and "Vec" not in fty else "vec")
            tok = "f:" + fld
            visits, records = set(), set()
            for c in calls:
                is_walker = c.path.startswith("cairo_lang_semantic::usage::Usages") or c.path.startswith("<cairo_lang_semantic::usage::Usages")
                if not (is_walker or c.name() == "insert"):
                    continue
                # only the value arguments count (the `&mut self` / `&mut Usage` receivers have seen everything)
                flds, names = set(), set()
                for a in c.args:
                    l = op_local(a)
                    if l is not None and (h.local_ty(l) or "").startswith("&mut"):
                        continue
                    f_, n_ = value_slice(h, a)
                    flds |= f_
                    names |= n_
                alt = usage_exc.get("handle_expr:%s.%s" % (var["name"], fld))
                if fld not in flds:
                    if alt and not is_walker and alt[0] in flds:
                        records.add(c.bb)
                        used_exc.add("handle_expr:%s.%s" % (var["name"], fld))
                    continue
                if is_walker:
                    visits.add(c.bb)
                elif "index" in names:
                    records.add(c.bb)
            none_edges = set()
            if kind == "opt":
                for bb2, t2 in h.switches():
                    if bb2 not in region:
                        continue
                    si = h.switch_info(bb2)
                    if si and si[0] == "disc" and "Option" in (si[2] or "") and (fld in place_fields(si[1]) or fld in value_slice(h, ["c", si[1]])[0]):
                        listed = {vv for vv, _ in t2[2]}
                        for vv, s_ in t2[2]:
                            if vv == 0:
                                none_edges.add(s_)
                        if 0 not in listed:
                            none_edges.add(t2[3])
            n_fields += 1
            if kind == "vec":
                ok = bool(visits)
                msg = "the elements of `%s` are walked" % fld if ok else "no walker of Usages is called on the elements of `%s`" % fld
            else:
                through = visits | records | none_edges
                ok = bool(visits | records) and h.must_pass(tgt, rets, through)
                msg = ("every path through the arm walks `%s`%s%s" % (fld, " or records a usage computed from it" if records else "", " (or it is None)" if kind == "opt" else "")) if ok else (
                    "a path through the `%s` arm neither walks the child expression `%s` nor records a usage computed from it: what it uses is invisible to "
                    "closures and loops that contain it" % (var["name"], fld))
            ctx.ob("R8.5", "handle_expr:%s.%s" % (var["name"], fld), ok, msg, h.where())
    for k_ in sorted(set(usage_exc) - used_exc):
        ctx.ob("R8.5", "stale-exception:" + k_, False, "exception row matches nothing any more (remove it)", "tables/c08_usage_exceptions.tsv")
    ctx.floor("child-expression fields walked by the usage analysis", n_fields, 20)
