"""Abstract interpreter for the progress (token consumption) behaviour of the recursive-descent parser.

Question decided: starting a parser routine `f` with next-terminal kind `k` (and, for generic / higher-order
routines, a calling context: generic arguments and constant function arguments), which abstract results can `f`
return *before any token was consumed*, and can it cycle without consuming?

Key fact that makes this exact enough: as long as no token was consumed, the kind of the next terminal is still
`k`, so every test of `peek().kind` (match, ==, helper predicates, `should_stop` closures) is resolved for the
concrete `k`.  The exploration stops at the first consumption (`Parser::take_raw` / `Parser::advance`), so only
the prefix of each routine that runs on an unchanged look-ahead is interpreted.  At end of file "consumption"
does not advance, so for k = TerminalEndOfFile a consuming call is *not* progress and the kind stays as it is.

Abstract values:  ("i", n) integers / discriminants, ("b", 0|1), ("k", Kind), ("v", idx, payload) enum variant,
("term",) the peeked terminal, ("ref", av), ("fn", path, subst) function pointer / closure, ("tup", (..)), None.
"""
import re

from .lib import (op_place, op_local, op_const, place_local, place_proj, last_seg, strip_generics, Call)

PARSER = "cairo_lang_parser::parser::Parser"
EOF_KIND = "TerminalEndOfFile"
TOPK = "?"
BASE_CONSUMERS = ("take_raw", "advance")


def _freeze(av):
    if isinstance(av, list):
        return tuple(_freeze(x) for x in av)
    if isinstance(av, tuple):
        return tuple(_freeze(x) for x in av)
    if isinstance(av, dict):
        return tuple(sorted((k, _freeze(v)) for k, v in av.items()))
    return av


class Finding:
    def __init__(self, kind, key, detail):
        self.kind, self.key, self.detail = kind, key, detail


class ParserAI:
    SUBJECT = PARSER

    def __init__(self, F, kind_names, max_states=6000, eof_pop_panics=False, topk=False):
        self.F = F
        # topk: the next terminal is unknown (kind "?") and calls of routines that receive the parser are opaque: the
        # exploration covers every path of one routine and yields the abstract values it can return (R9.9 restarts)
        self.topk = topk
        self.eof_pop_panics = eof_pop_panics   # popping the token window at end of file counts as a panic (C09 R9.10)
        self.names = kind_names
        self.kidx = {n: i for i, n in enumerate(kind_names)}
        self.memo = {}
        self.stack = []
        self.cycles = {}       # key -> detail: exploration returned to a visited state without consumption
        self.recursions = {}   # key -> chain: re-entered (routine, kind, context) without consumption
        self.limits = set()
        self.max_states = max_states
        self.n_explored = 0
        self._kf = {}
        self.unknown_calls = {}
        self.witness = {}

    # ------------------------------------------------------------------ helpers
    def fn(self, path):
        return self.F.fns.get(path)

    def const_kind(self, fn, op, subst):
        from .c09 import KindFlow
        kf = self._kf.get(fn.path)
        if kf is None:
            kf = self._kf[fn.path] = KindFlow(self.F, fn, self.names, {})
        k = kf.const_kind(op)
        if k and k.startswith("KIND:"):
            t = subst_get(subst, k[5:])
            if t is None:
                return None
            k = last_seg(strip_generics(t))
        return k

    def analysable(self, path):
        f = self.F.fns.get(path)
        return f is not None and f.body is not None and f.crate in ("cairo_lang_parser", "cairo_lang_syntax")

    # ------------------------------------------------------------------ the interpreter
    def outcomes(self, path, k, subst=(), args=()):
        """Set of (return abstract value, consumed?) of routine `path` entered with next-terminal kind k."""
        key = (path, k, subst, args)
        if key in self.memo:
            return self.memo[key]
        if key in self.stack:
            i = self.stack.index(key)
            chain = [last_seg(x[0]) for x in self.stack[i:]] + [last_seg(path)]
            self.recursions.setdefault((path, k), " -> ".join(chain))
            return set()
        f = self.F.fns[path]
        self.stack.append(key)
        try:
            env0 = {}
            for i, av in enumerate(args, start=1):
                if av is not None:
                    env0[i] = av
            res = self._explore(f, 0, env0, k, subst, key)
        finally:
            self.stack.pop()
        self.memo[key] = res
        return res

    def from_block(self, f, bb, k, subst=(), args=(), extra_env=None):
        """Exploration started at block bb (a loop header) with only the argument facts known."""
        env0 = {i: av for i, av in enumerate(args, start=1) if av is not None}
        if extra_env:
            env0.update(extra_env)
        key = (f.path + "@bb%d" % bb, k, subst, args)
        self.stack.append(key)
        try:
            return self._explore(f, bb, env0, k, subst, key, loop_header=bb)
        finally:
            self.stack.pop()

    def _explore(self, f, start, env0, k0, subst, key, loop_header=None):
        out = set()
        seen = set()
        work = [(start, env0, k0, None, (), None)]
        n = 0
        while work:
            bb, env, k, pred, trail, anc = work.pop()
            sk = (bb, k, _freeze(env))
            if sk in seen:
                a = anc
                while a is not None:
                    if a[0] == sk:
                        # the path came back to a state it has been in: nothing was consumed and nothing the
                        # interpreter tracks changed, so it can go round forever
                        if not self.topk:
                            self.cycles.setdefault((f.path, k0, subst, key[3]), (_line(f, bb), k, trail))
                        break
                    a = a[1]
                continue
            seen.add(sk)
            anc = (sk, anc)
            n += 1
            self.n_explored += 1
            if n > self.max_states:
                self.limits.add(key)
                break
            env = dict(env)
            blk = f.blocks[bb]
            for st in blk["s"]:
                self._stmt(f, st, env, k, subst)
            t = blk["t"]
            tk = t[0]
            if tk == "ret":
                o = (_freeze(env.get(0)), False)
                out.add(o)
                self.witness.setdefault((key, o), trail)
            elif tk == "goto":
                work.append((t[1], env, k, bb, trail, anc))
            elif tk == "drop":
                if isinstance(t[2], int):
                    work.append((t[2], env, k, bb, trail, anc))
            elif tk == "assert":
                if isinstance(t[5], int):
                    work.append((t[5], env, k, bb, trail, anc))
            elif tk == "switch":
                for s_ in self._switch(f, bb, t, env, k):
                    work.append((s_, env, k, bb, trail, anc))
            elif tk == "call":
                c = Call(f, bb, t)
                if c.target is None and is_panic_call(c):
                    o = ("!", False)
                    out.add(o)
                    self.witness.setdefault((key, o), trail + ("%s@%s" % (last_seg(c.path), c.line),))
                    continue
                for item in self._call(f, c, env, k, subst):
                    if item == "PANIC":
                        o = ("!", False)
                        out.add(o)
                        self.witness.setdefault((key, o), trail + ("%s@%s panics" % (last_seg(c.path), c.line),))
                        continue
                    (nenv, nk, consumed) = item
                    if consumed:
                        out.add(("*", True))
                    elif c.target is not None:
                        work.append((c.target, nenv, nk, bb, trail + ("%s@%s=%s" % (last_seg(c.path) or "ptr", c.line, _short(nenv.get(place_local(c.dest)))),), anc))
            # unreachable / resume: path ends
        return out

    # ------------------------------------------------------------------ statements
    def _place_av(self, f, p, env, k):
        l = place_local(p)
        av = env.get(l)
        for e in place_proj(p):
            if av is None:
                return None
            if e == "*":
                if av[0] == "ref":
                    av = av[1]
                elif av[0] == "term":
                    pass
                else:
                    return None
            elif isinstance(e, list) and e[0] == "d":
                # downcast to a variant: keep, the field read follows
                continue
            elif isinstance(e, list) and e[0] == "f":
                if av[0] == "term":
                    av = ("k", k) if e[2] == "kind" and k != TOPK else None
                elif av[0] == "v":
                    av = av[2] if (len(av) > 2 and e[1] == 0) else None
                elif av[0] == "tup":
                    av = av[1][e[1]] if e[1] < len(av[1]) else None
                else:
                    return None
            else:
                return None
        return av

    def _op_av(self, f, op, env, k, subst):
        c = op_const(op)
        if c is not None:
            if c[0] == "int":
                ty = op[3] if len(op) > 3 else ""
                return ("b", int(c[1])) if ty == "bool" else ("i", c[1])
            if c[0] == "fn" and isinstance(c[1], dict):
                return ("fn", c[1].get("path", ""), tuple(subst_apply(subst, g) for g in c[1].get("args", [])))
            if c[0] in ("fn", "closure"):
                return ("fn", c[1], ())
            kk = self.const_kind(f, op, subst)
            if kk:
                return ("ref", ("k", kk)) if (len(op) > 3 and str(op[3]).startswith("&")) else ("k", kk)
            if c[0] == "promoted":
                pav = self._promoted_av(f, op[2])
                if pav is not None:
                    return pav
            return None
        p = op_place(op)
        if p is None:
            return None
        return self._place_av(f, p, env, k)

    def _promoted_av(self, f, idx):
        pb = f.const_of_promoted(idx)
        if not pb:
            return None
        for bl in pb["blocks"]:
            for st in bl["s"]:
                if st[0] == "a" and st[2][0] == "agg" and st[2][1] == "adt" and not st[2][3]:
                    return ("ref", ("v", st[2][6]))
        return None

    def _call_subst_from_path(self, op, subst):
        return ()

    def _stmt(self, f, st, env, k, subst):
        if st[0] != "a":
            return
        dst, rv = st[1], st[2]
        dl = place_local(dst)
        if place_proj(dst):
            # partial write: forget the base unless it is a tuple/variant field we do not track
            env.pop(dl, None)
            return
        kind = rv[0]
        av = None
        if kind == "use":
            av = self._op_av(f, rv[1], env, k, subst)
            if av is None and op_const(rv[1]) is not None and op_const(rv[1])[0] == "int":
                av = ("i", op_const(rv[1])[1])
            if av is not None and av[0] == "i" and f.local_ty(dl) == "bool":
                av = ("b", int(av[1] != 0))
        elif kind == "ref":
            p = rv[1]
            base = env.get(place_local(p))
            if place_proj(p) == ["*"] and base is not None and base[0] in ("ref", "term", "mref"):
                av = base                                  # reborrow
            elif not place_proj(p) and len(rv) > 2 and rv[2]:
                av = ("mref", place_local(p))              # `&mut local`: identity matters, the callee may change it
            else:
                inner = self._place_av(f, p, env, k)
                av = ("ref", inner) if inner is not None else None
        elif kind == "cast":
            av = self._op_av(f, rv[2], env, k, subst)
        elif kind == "agg":
            if rv[1] == "adt":
                if rv[2].endswith("kind::SyntaxKind"):
                    av = ("k", rv[4])
                else:
                    payload = self._op_av(f, rv[3][0], env, k, subst) if rv[3] else None
                    av = ("v", rv[6], payload)
            elif rv[1] == "tuple":
                av = ("tup", tuple(self._op_av(f, o, env, k, subst) for o in rv[3]))
            elif rv[1] == "closure":
                av = ("fn", rv[2], ())
        elif kind == "disc":
            inner = self._place_av(f, rv[1], env, k)
            if inner is not None:
                if inner[0] == "v":
                    av = ("i", inner[1])
                elif inner[0] == "k" and inner[1] in self.kidx:
                    av = ("i", self.kidx[inner[1]])
        elif kind == "un" and rv[1] == "Not":
            a = self._op_av(f, rv[2], env, k, subst)
            if a is not None and a[0] == "b":
                av = ("b", 1 - a[1])
        elif kind == "bin" and rv[1] in ("Eq", "Ne", "Lt", "Le", "Gt", "Ge"):
            a = self._op_av(f, rv[2], env, k, subst)
            b = self._op_av(f, rv[3], env, k, subst)
            if a is not None and b is not None and a[0] == b[0] and a[0] in ("i", "b", "k"):
                if rv[1] in ("Eq", "Ne"):
                    eq = a[1] == b[1]
                    av = ("b", int(eq if rv[1] == "Eq" else not eq))
                elif a[0] == "i" and isinstance(a[1], int) and isinstance(b[1], int):
                    av = ("b", int({"Lt": a[1] < b[1], "Le": a[1] <= b[1], "Gt": a[1] > b[1], "Ge": a[1] >= b[1]}[rv[1]]))
        if av is None:
            env.pop(dl, None)
        else:
            env[dl] = av

    # ------------------------------------------------------------------ switch
    def _switch(self, f, bb, t, env, k):
        av = self._op_av(f, t[1], env, k, ())
        if av is None and op_const(t[1]) is not None:
            av = ("i", op_const(t[1])[1])
        if av is not None and av[0] in ("i", "b"):
            v = av[1]
            for val, s in t[2]:
                if val == v:
                    return [s]
            return [t[3]]
        succ = []
        for _, s in t[2]:
            if s not in succ:
                succ.append(s)
        if t[3] not in succ:
            succ.append(t[3])
        return [s for s in succ if not f.is_unreachable_block(s)]

    # ------------------------------------------------------------------ calls
    def _call(self, f, c, env, k, subst):
        """[(env', k', consumed?)] for the normal return of the call."""
        dl = place_local(c.dest)
        bare = not place_proj(c.dest)

        def ret(av, nk=k, consumed=False):
            e = dict(env)
            if bare:
                if av is None:
                    e.pop(dl, None)
                else:
                    e[dl] = av
            else:
                e.pop(dl, None)
            return (e, nk, consumed)

        callee = c.callee
        path = c.path
        gargs = [subst_apply(subst, g) for g in c.gargs]
        argavs = [self._op_av(f, a, env, k, subst) for a in c.args]
        if self.topk and (callee.get("r") == "ptr" or last_seg(path) in ("call", "call_once", "call_mut")) and \
                any(op_local(a) is not None and self.SUBJECT in (f.local_ty(op_local(a)) or "") for a in c.args):
            return [ret(None)]
        if callee.get("r") == "ptr":
            fav = self._op_av(f, callee.get("op"), env, k, subst)
            if fav is None or fav[0] != "fn":
                self.unknown_calls.setdefault((f.path, "indirect"), c.where())
                return [ret(None)]
            path = fav[1]
            gargs = list(fav[2]) if len(fav) > 2 else []
            if not self.analysable(path):
                return [ret(None)]
            if self.F.fns[path].kind == "Closure":
                argavs = [None] + argavs
            return self._enter(path, argavs, gargs, k, ret, closure_self=False)
        name = last_seg(path)
        # --- closures and fn pointers called through the Fn traits
        if name in ("call", "call_once", "call_mut") and "core::ops::function::Fn" in path and argavs:
            fav = argavs[0]
            if fav is not None and fav[0] == "ref":
                fav = fav[1]
            if fav is not None and fav[0] == "fn" and self.analysable(fav[1]):
                tup = argavs[1] if len(argavs) > 1 else None
                inner = list(tup[1]) if tup is not None and tup[0] == "tup" else []
                cf = self.F.fns[fav[1]]
                if cf.kind == "Closure":
                    inner = [None] + inner
                return self._enter(fav[1], inner, [], k, ret, closure_self=False)
            return [ret(None)]
        # a `&mut` borrow of a local handed to a call: the local may be changed by it
        mrefs = [av[1] for av in argavs if av is not None and av[0] == "mref"]
        if mrefs:
            base_ret = ret

            def ret(av, nk=k, consumed=False, _b=base_ret):       # noqa: F811
                e, nk2, c2 = _b(av, nk, consumed)
                for L in mrefs:
                    e.pop(L, None)
                return (e, nk2, c2)
        if name in ("new", "with_capacity", "default") and ("alloc::vec::Vec" in path) :
            return [ret(("vec", 0))]
        if name in ("is_empty", "len") and argavs and argavs[0] is not None and argavs[0][0] == "ref" and argavs[0][1] is not None and argavs[0][1][0] == "vec":
            n_ = argavs[0][1][1]
            return [ret(("b", int(n_ == 0)) if name == "is_empty" else ("i", n_))]
        is_parser_method = path.startswith(PARSER + "::")
        if self.topk and is_parser_method and (name == "take" or name in BASE_CONSUMERS or name == "unglue"):
            return [ret(None)]
        if is_parser_method and name == "take":
            # take::<T>() = take_raw + assert(kind == T::KIND): that the assertion holds is rule R9.2's business
            if k == EOF_KIND:
                return ["PANIC"] if self.eof_pop_panics else [ret(None)]
            return [ret(None, consumed=True)]
        if is_parser_method and name in BASE_CONSUMERS:
            if k == EOF_KIND:
                return ["PANIC"] if self.eof_pop_panics else [ret(None)]
            return [ret(None, consumed=True)]
        if is_parser_method and name in ("peek", "next_terminal"):
            return [ret(("term",))]
        if is_parser_method and name == "unglue":
            ts = [last_seg(strip_generics(g)) for g in gargs if "Terminal" in g]
            if len(ts) >= 2 and k == ts[0]:
                return [ret(None, nk=ts[1])]
            # the model "does nothing unless the next terminal is the glued kind" is checked against the body where it
            # matters: if the body can pop the window (or panic) on this kind, so does the call
            g_ = self.F.fns.get(path)
            if g_ is not None and g_.body is not None and self.eof_pop_panics:
                gen = g_.d.get("generics") or []
                sub = tuple(sorted(zip(gen, gargs))) if gen and len(gen) == len(gargs) else ()
                if ("!", False) in self.outcomes(path, k, sub, ()):
                    return ["PANIC", ret(None)]
            return [ret(None)]
        # --- pure helpers on abstract values
        if name in ("eq", "ne") and len(argavs) == 2 and ("PartialEq" in path):
            a, b = argavs
            a = a[1] if a is not None and a[0] == "ref" else a
            b = b[1] if b is not None and b[0] == "ref" else b
            if a is not None and b is not None and a[0] == b[0] and a[0] in ("k", "i", "b") :
                eq = a[1] == b[1]
                return [ret(("b", int(eq if name == "eq" else not eq)))]
            if a is not None and b is not None and a[0] == "v" and b[0] == "v":
                pa = a[2] if len(a) > 2 else None
                pb = b[2] if len(b) > 2 else None
                if a[1] != b[1]:
                    return [ret(("b", int(name != "eq")))]
                if pa is None and pb is None and _payload_free(f, c):
                    return [ret(("b", int(name == "eq")))]
                if pa is not None and pb is not None and pa[0] == pb[0] and pa[0] in ("i", "k", "b"):
                    eq = pa[1] == pb[1]
                    return [ret(("b", int(eq if name == "eq" else not eq)))]
            return [ret(None)]
        if name == "branch" and "Try" in path and argavs and argavs[0] is not None and argavs[0][0] == "v":
            a = argavs[0]
            dty = f.local_ty(place_local(op_place(c.args[0]))) if op_place(c.args[0]) is not None else ""
            if dty.startswith("core::result::Result"):
                return [ret(("v", 0, a[2] if len(a) > 2 else None) if a[1] == 0 else ("v", 1, a))]
            if dty.startswith("core::option::Option"):
                return [ret(("v", 0, a[2] if len(a) > 2 else None) if a[1] == 1 else ("v", 1, a))]
            return [ret(None)]
        if name == "from_residual" and argavs and argavs[0] is not None and argavs[0][0] == "v":
            a = argavs[0]
            rty = f.local_ty(dl)
            if rty.startswith("core::result::Result"):
                return [ret(("v", 1, a[2] if len(a) > 2 else None))]
            if rty.startswith("core::option::Option"):
                return [ret(("v", 0, None))]
            return [ret(None)]
        if name in ("into", "from", "clone", "deref", "borrow", "as_ref") and len(argavs) == 1:
            a = argavs[0]
            if name in ("clone", "deref") and a is not None and a[0] == "ref":
                a = a[1]
            return [ret(a)]
        if name in ("is_some", "is_none", "is_ok", "is_err") and argavs:
            a = argavs[0]
            a = a[1] if a is not None and a[0] == "ref" else a
            if a is not None and a[0] == "v":
                ty = f.local_ty(op_local(c.args[0])) if op_local(c.args[0]) is not None else ""
                some = a[1] == 1 if "Option" in path or "option::Option" in ty else None
                ok = a[1] == 0 if "Result" in path or "result::Result" in ty else None
                val = {"is_some": some, "is_none": (None if some is None else not some), "is_ok": ok,
                       "is_err": (None if ok is None else not ok)}[name]
                if val is not None:
                    return [ret(("b", int(val)))]
            return [ret(None)]
        if name == "ok" and "Result" in path and argavs and argavs[0] is not None and argavs[0][0] == "v":
            a = argavs[0]
            return [ret(("v", 1, a[2] if len(a) > 2 else None) if a[1] == 0 else ("v", 0, None))]
        if name in ("map", "map_err", "and_then", "or_else", "inspect") and ("Result" in path or "Option" in path) and argavs and argavs[0] is not None and argavs[0][0] == "v":
            a = argavs[0]
            is_res = "Result" in path
            carries = (a[1] == 0) if is_res else (a[1] == 1)          # Ok / Some
            if name in ("map", "inspect"):
                return [ret(("v", a[1], None if carries else (a[2] if len(a) > 2 else None)))]
            if name == "map_err":
                return [ret(("v", a[1], (a[2] if len(a) > 2 else None) if carries else None))]
            if name == "and_then" and not carries:
                return [ret(a)]
            if name == "or_else" and carries:
                return [ret(a)]
            return [ret(None)]
        if name in ("unwrap", "expect") and ("Option" in path or "Result" in path) and argavs and argavs[0] is not None and argavs[0][0] == "v":
            a = argavs[0]
            good = (a[1] == 1) if "Option" in path else (a[1] == 0)
            if not good:
                return ["PANIC"]
            return [ret(a[2] if len(a) > 2 else None)]
        if name in ("is_some_and", "is_none_or", "map_or", "is_ok_and", "is_err_and") and ("Option" in path or "Result" in path) \
                and argavs and argavs[0] is not None and argavs[0][0] == "v":
            a = argavs[0]
            carries = (a[1] == 1) if "Option" in path else ((a[1] == 0) != (name == "is_err_and"))
            default = {"is_some_and": ("b", 0), "is_ok_and": ("b", 0), "is_err_and": ("b", 0), "is_none_or": ("b", 1),
                       "map_or": argavs[1] if len(argavs) > 2 else None}[name]
            if not carries:
                return [ret(default)]
            fav = argavs[-1]
            while fav is not None and fav[0] == "ref":
                fav = fav[1]
            if fav is not None and fav[0] == "fn" and self.analysable(fav[1]):
                res = []
                inner = [None, a[2] if len(a) > 2 else None] if self.F.fns[fav[1]].kind == "Closure" else [a[2] if len(a) > 2 else None]
                for rav, consumed in self.outcomes(fav[1], k, (), tuple(inner)):
                    if rav == "!":
                        res.append("PANIC")
                    else:
                        res.append(ret(rav if not consumed else None, consumed=consumed))
                return res
            return [ret(None)]
        if name in ("copied", "cloned", "as_deref", "as_mut", "as_deref_mut") and ("Option" in path or "Result" in path) and argavs and argavs[0] is not None:
            a = argavs[0]
            return [ret(a[1] if a[0] == "ref" else a)]
        if name in ("then_some", "then") and "bool" in path and argavs and argavs[0] is not None and argavs[0][0] == "b":
            if not argavs[0][1]:
                return [ret(("v", 0, None))]
            return [ret(("v", 1, argavs[1] if name == "then_some" and len(argavs) > 1 else None))]
        if name in ("ok_or", "ok_or_else") and "Option" in path and argavs and argavs[0] is not None and argavs[0][0] == "v":
            a = argavs[0]
            return [ret(("v", 0, a[2] if len(a) > 2 else None) if a[1] == 1 else ("v", 1, argavs[1] if name == "ok_or" and len(argavs) > 1 else None))]
        if name in ("or", "and", "xor") and "Option" in path and len(argavs) == 2 and all(x is not None and x[0] == "v" for x in argavs):
            a, b = argavs
            if name == "or":
                return [ret(a if a[1] == 1 else b)]
            if name == "and":
                return [ret(b if a[1] == 1 else ("v", 0, None))]
            return [ret(None)]
        if name in ("unwrap_or_else", "unwrap_or_default", "unwrap_or") and ("Option" in path or "Result" in path) and argavs \
                and argavs[0] is not None and argavs[0][0] == "v":
            a = argavs[0]
            carries = (a[1] == 1) if "Option" in path else (a[1] == 0)
            if carries:
                return [ret(a[2] if len(a) > 2 else None)]
            if name == "unwrap_or" and len(argavs) > 1:
                return [ret(argavs[1])]
            if name == "unwrap_or_else" and len(argavs) > 1:
                fav = argavs[1]
                while fav is not None and fav[0] == "ref":
                    fav = fav[1]
                if fav is not None and fav[0] == "fn" and self.analysable(fav[1]):
                    res = []
                    for rav, consumed in self.outcomes(fav[1], k, (), (None,)):
                        res.append("PANIC" if rav == "!" else ret(rav if not consumed else None, consumed=consumed))
                    return res
            return [ret(None)]
        if name == "filter" and "Option" in path and len(argavs) == 2 and argavs[0] is not None and argavs[0][0] == "v":
            a = argavs[0]
            if a[1] == 0:
                return [ret(a)]
            fav = argavs[1]
            while fav is not None and fav[0] == "ref":
                fav = fav[1]
            if fav is not None and fav[0] == "fn" and self.analysable(fav[1]):
                res = []
                payload = a[2] if len(a) > 2 else None
                for rav, consumed in self.outcomes(fav[1], k, (), (None, ("ref", payload) if payload is not None else None)):
                    if rav == "!":
                        res.append("PANIC")
                    elif consumed:
                        res.append(ret(None, consumed=True))
                    elif rav is not None and rav[0] == "b":
                        res.append(ret(a if rav[1] else ("v", 0, None)))
                    else:
                        res.append(ret(None))
                return res
            return [ret(None)]
        if name == "require" and argavs and argavs[0] is not None and argavs[0][0] == "b":
            return [ret(("v", 1, None) if argavs[0][1] else ("v", 0, None))]
        # --- a closure called directly: the arguments arrive as (closure, (args..)) and are spread in the body
        cf = self.F.fns.get(path)
        if cf is not None and cf.kind == "Closure" and cf.body is not None and self.analysable(path):
            inner = [argavs[0] if argavs else None]
            if len(argavs) > 1 and argavs[1] is not None and argavs[1][0] == "tup":
                inner += list(argavs[1][1])
            return self._enter(path, inner, gargs, k, ret)
        # --- routines we can look into
        takes_parser = any(op_local(a) is not None and self.SUBJECT in (f.local_ty(op_local(a)) or "") for a in c.args)
        kind_arg = any(av is not None and (av[0] == "k" or (av[0] == "ref" and av[1] is not None and av[1][0] == "k")) for av in argavs)
        fn_arg = any(av is not None and av[0] == "fn" for av in argavs)
        if self.topk and takes_parser:
            return [ret(None)]
        if self.analysable(path) and (takes_parser or kind_arg or (fn_arg and is_parser_method)):
            return self._enter(path, argavs, gargs, k, ret)
        if takes_parser:
            self.unknown_calls.setdefault((path, "no body"), c.where())
        return [ret(None)]

    def _enter(self, path, argavs, gargs, k, ret, closure_self=True):
        g = self.F.fns[path]
        gen = g.d.get("generics") or []
        sub = tuple(sorted(zip(gen, gargs))) if gen and len(gen) == len(gargs) else ()
        # only the facts that select behaviour are part of the context
        args = tuple(av if _ctx_relevant(av) else None for av in argavs[:g.argc])
        res = []
        outs = self.outcomes(path, k, sub, args)
        consumed_any = False
        seen_vals = set()
        for rav, consumed in outs:
            if consumed:
                consumed_any = True
                continue
            if rav == "!":
                res.append("PANIC")
                continue
            if rav in seen_vals:
                continue
            seen_vals.add(rav)
            res.append(ret(_thaw(rav)))
        if consumed_any:
            res.append(ret(None, consumed=True))
        return res


PANIC_FNS = ("core::panicking::", "std::rt::begin_panic", "core::option::unwrap_failed", "core::result::unwrap_failed",
             "core::option::expect_failed", "core::slice::index::", "core::str::slice_error_fail")


def is_panic_call(c):
    return c.path.startswith(PANIC_FNS) or "panicking" in c.path


def _payload_free(f, c):
    """Are the compared enum values of a type whose variants carry nothing (so equal variants are equal values)?"""
    l = op_local(c.args[0])
    ty = f.local_ty(l) if l is not None else ""
    return "TryParseFailure" in ty or "SyntaxKind" in ty or "TokenKind" in ty


def _short(av):
    if av is None:
        return "?"
    if av[0] == "v":
        return "V%d(%s)" % (av[1], _short(av[2]) if len(av) > 2 and av[2] is not None else "")
    if av[0] in ("b", "i", "k"):
        return "%s" % (av[1],)
    return av[0]


def _line(f, bb):
    blk = f.blocks[bb]
    for st in blk["s"]:
        if st[0] == "a" and len(st) > 3:
            return st[3]
    t = blk["t"]
    if t[0] == "call":
        return t[5]
    return f.line


def _ctx_relevant(av):
    if av is None:
        return False
    if av[0] in ("fn", "k", "b", "vec"):
        return True
    if av[0] == "ref":
        return _ctx_relevant(av[1])
    if av[0] == "v":
        return len(av) < 3 or av[2] is None or _ctx_relevant(av[2])
    return False


def _thaw(av):
    return av


def subst_get(subst, name):
    for n, t in subst:
        if n == name:
            return t
    return None


def subst_apply(subst, g):
    if not subst:
        return g
    for n, t in subst:
        if g == n:
            return t
        if re.search(r"\b%s\b" % re.escape(n), g):
            g = re.sub(r"\b%s\b" % re.escape(n), lambda m: t, g)
    return g


# ---------------------------------------------------------------------------------------------
# calling contexts (generic arguments and constant function arguments) of the parser's routines

def takes_parser(f, c):
    return any(op_local(a) is not None and PARSER in (f.local_ty(op_local(a)) or "") for a in c.args)


def needs_ctx(F, f):
    """Does the behaviour of f depend on generic arguments or on functions it is given?"""
    if f.d.get("generics"):
        return True
    for i in range(1, f.argc + 1):
        t = f.local_ty(i) or ""
        if "fn(" in t or "Fn" in t:
            return True
        a = F.adts.get(strip_generics(t))
        if a and any("fn(" in ft for v in a["variants"] for _, ft in v["fields"]):
            return True
    return False


def static_av(g, op, ctx, depth=0, consts=False):
    """Abstract value of a call argument that is fixed at the call site: a function item, a closure, a struct
    holding one, or a parameter of the caller (taken from the caller's own context)."""
    if depth > 10:
        return None
    k = op_const(op)
    if k is not None:
        if k[0] == "fn" and isinstance(k[1], dict):
            return ("fn", k[1]["path"], tuple(subst_apply(ctx[0], x) for x in k[1].get("args", [])))
        if consts and k[0] == "int" and k[1] in (0, 1) and len(op) > 3 and op[3] == "bool":
            return ("b", k[1])
        return None
    pl = op_place(op)
    if pl is None:
        return None
    l = place_local(pl)
    pj = place_proj(pl)
    if pj:
        if len(pj) == 1 and isinstance(pj[0], list) and pj[0][0] == "f" and pj[0][1] == 0:
            base = static_av(g, ["c", l], ctx, depth + 1, consts)
            if base is not None and base[0] == "v" and len(base) > 2:
                return base[2]
        return None
    if 1 <= l <= g.argc:
        return ctx[1][l - 1] if l - 1 < len(ctx[1]) else None
    dfn = g.single_def(l)
    if not dfn or dfn[0] != "stmt":
        return None
    rv = dfn[3]
    if rv[0] == "agg" and rv[1] == "closure":
        return ("fn", rv[2], ())
    if rv[0] == "agg" and rv[1] == "adt" and rv[3]:
        return ("v", rv[6], static_av(g, rv[3][0], ctx, depth + 1, consts))
    o = rv[1] if rv[0] == "use" else (rv[2] if rv[0] == "cast" else None)
    if o is None:
        return None
    return static_av(g, o, ctx, depth + 1, consts)


def compute_contexts(F, pf):
    """{routine path: {(subst, args)}} by propagation from the call sites, to a fixpoint."""
    from collections import defaultdict
    contexts = defaultdict(set)
    need = {p: needs_ctx(F, f) for p, f in pf.items()}
    for p in pf:
        if not need[p]:
            contexts[p].add(((), ()))
    changed, rounds = True, 0
    while changed and rounds < 12:
        changed = False
        rounds += 1
        for p, g in pf.items():
            for ctx in list(contexts[p]):
                for c in g.calls():
                    if c.path in pf and need[c.path]:
                        f = pf[c.path]
                        gen = f.d.get("generics") or []
                        gargs = [subst_apply(ctx[0], x) for x in c.gargs]
                        sub = tuple(sorted(zip(gen, gargs))) if gen and len(gen) == len(gargs) else ()
                        args = []
                        for a in c.args[:f.argc]:
                            av = static_av(g, a, ctx)
                            args.append(av if _ctx_relevant(av) else None)
                        nc = (sub, tuple(args))
                        if nc not in contexts[c.path]:
                            contexts[c.path].add(nc)
                            changed = True
    return contexts, rounds


def element_parsers(F, pf):
    """{element parser path: [(where it is handed over, list routine)]}: function items coerced to
    `fn(&mut Parser) -> Result<_, TryParseFailure>`."""
    from collections import defaultdict
    out = defaultdict(list)
    for p, f in pf.items():
        for _, _, st in f.stmts():
            if st[0] == "a" and st[2][0] == "cast":
                o = st[2][2]
                if o[0] == "k" and o[1] == "fn" and isinstance(o[2], dict) and "TryParseFailure" in st[2][3] and PARSER in st[2][3]:
                    user = None
                    for c in f.calls():
                        if any(op_local(a) == st[1] for a in c.args):
                            user = last_seg(c.path)
                    out[o[2]["path"]].append(("%s:%s" % (f.file, st[3]), user))
    return out


def ctx_text(ctx):
    """Short description of a calling context for messages and keys."""
    parts = []
    for n, t in ctx[0]:
        if "Terminal" in t:
            parts.append("%s=%s" % (n, last_seg(strip_generics(t))))

    def av_text(av):
        if av is None:
            return None
        if av[0] == "fn":
            segs = strip_generics(av[1]).split("::")
            return "::".join(segs[-2:]) if segs[-1].startswith("{closure") else segs[-1]
        if av[0] == "v" and len(av) > 2:
            return av_text(av[2])
        return None
    for av in ctx[1]:
        t = av_text(av)
        if t:
            parts.append(t)
    return ",".join(parts)


# ---------------------------------------------------------------------------------------------
# the same interpreter over the lexer: the look-ahead is the next character

LEXER = "cairo_lang_parser::lexer::Lexer"
EOF_CHAR = "EOF"
CHAR_PREDICATES = {
    "is_ascii_hexdigit": lambda ch: ch < 128 and chr(ch) in "0123456789abcdefABCDEF",
    "is_ascii_digit": lambda ch: ch < 128 and chr(ch).isdigit(),
    "is_ascii_alphanumeric": lambda ch: ch < 128 and chr(ch).isalnum(),
    "is_ascii_alphabetic": lambda ch: ch < 128 and chr(ch).isalpha(),
    "is_ascii_whitespace": lambda ch: ch in (9, 10, 12, 13, 32),
    "is_ascii": lambda ch: ch < 128,
    "is_whitespace": lambda ch: chr(ch).isspace(),
    "is_alphanumeric": lambda ch: chr(ch).isalnum(),
    "is_alphabetic": lambda ch: chr(ch).isalpha(),
    "is_numeric": lambda ch: chr(ch).isnumeric(),
    "is_ascii_punctuation": lambda ch: ch < 128 and (33 <= ch <= 47 or 58 <= ch <= 64 or 91 <= ch <= 96 or 123 <= ch <= 126),
}


def lexer_alphabet():
    """Every ASCII character, two representatives of the non-ASCII characters, and end of input."""
    return list(range(0, 128)) + [0xE9, 0x4E2D, 0x1F600] + [EOF_CHAR]


class LexerAI(ParserAI):
    SUBJECT = LEXER

    def _call(self, f, c, env, k, subst):
        dl = place_local(c.dest)
        bare = not place_proj(c.dest)

        def ret(av, consumed=False):
            e = dict(env)
            if bare and av is not None:
                e[dl] = av
            else:
                e.pop(dl, None)
            return (e, k, consumed)
        path = c.path
        name = last_seg(path)
        argavs = [self._op_av(f, a, env, k, subst) for a in c.args]
        if path.startswith(LEXER + "::"):
            if name == "peek":
                return [ret(("v", 0, None) if k == EOF_CHAR else ("v", 1, ("i", k)))]
            if name == "take":
                if k == EOF_CHAR:
                    return [ret(("v", 0, None))]
                return [ret(None, consumed=True)]
            if name in ("peek_nth", "peek_text_span", "consume_text_span"):
                return [ret(None)]
        if name == "map" and "Option" in path and len(argavs) == 2 and argavs[0] is not None and argavs[0][0] == "v":
            a, fav = argavs
            if a[1] == 0:
                return [ret(("v", 0, None))]
            while fav is not None and fav[0] == "ref":
                fav = fav[1]
            if fav is not None and fav[0] == "fn" and self.analysable(fav[1]):
                res = []
                for rav, consumed in self.outcomes(fav[1], k, (), (None, a[2] if len(a) > 2 else None)):
                    res.append(ret(("v", 1, rav) if not consumed else None, consumed=consumed))
                return res
            return [ret(("v", 1, None))]
        if name in ("unwrap_or", "unwrap_or_default") and argavs and argavs[0] is not None and argavs[0][0] == "v":
            a = argavs[0]
            if a[1] == 1:
                return [ret(a[2] if len(a) > 2 else None)]
            return [ret(argavs[1] if len(argavs) > 1 else ("b", 0))]
        if name in CHAR_PREDICATES and argavs:
            a = argavs[0]
            while a is not None and a[0] == "ref":
                a = a[1]
            if a is not None and a[0] == "i" and isinstance(a[1], int):
                return [ret(("b", int(bool(CHAR_PREDICATES[name](a[1])))))]
            return [ret(None)]
        return super()._call(f, c, env, k, subst)
